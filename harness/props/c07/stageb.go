package main

// Stage B: a live agent (real listener ... real Forward client against a healthy fake upstream) receives TCP streams that
// mix hostile material with stamped valid records, over several connections, with abrupt disconnects and half lines.
// After each batch a fresh connection sends a sentinel; the agent must still listen and deliver it intact.

import (
	"bytes"
	"fmt"
	"net"
	"os"
	"path/filepath"
	"strconv"
	"strings"
	"sync"
	"time"

	"github.com/relex/slog-agent/defs"

	"verifharness/internal/e2e"
	"verifharness/internal/upstream"
	"verifharness/internal/vkit"
)

func stageBChild(c *vkit.Ctx) {
	idx, _ := strconv.Atoi(c.Arg("idx"))
	r := c.Rand("stageB", idx)
	sc := e2e.Scenario{ID: fmt.Sprintf("b%03d", idx), Outputs: 1, Mode: []string{"CompressedPackedForward", "Forward"}[idx%2], MemWindow: 8, QueueCap: 2000,
		ChunkBytes: 3000, BatchLogs: 7, MaxPending: 10}
	e2e.SetDefs(sc, e2e.DefaultTimeouts)
	bigMode := idx%4 == 3
	if bigMode { // default sizes: 1 MiB messages, 4 MiB listener buffer
		defs.InputLogMaxMessageBytes = 1024 * 1024
		defs.InputLogMaxRecordBytes = defs.InputLogMaxMessageBytes + 256
		defs.ListenerLineBufferSize = defs.InputLogMaxRecordBytes * 4
	}
	limit := defs.InputLogMaxMessageBytes
	root := filepath.Join(c.WorkDir(), "stageB")
	_ = os.MkdirAll(root, 0o755)
	clock := &upstream.Clock{}
	up, err := upstream.New("out1", clock, nil)
	if err != nil {
		c.Inconclusive("no upstream: " + err.Error())
		return
	}
	defer up.Close()
	cfgPath := filepath.Join(root, "config.yml")
	_ = os.WriteFile(cfgPath, []byte(e2e.ConfigYAML(sc, root, []string{up.Addr()})), 0o644)
	a, err := e2e.StartAgent(cfgPath, false)
	if err != nil {
		c.Inconclusive("agent did not start: " + err.Error())
		return
	}
	delivered := func() map[string]e2e.Delivered {
		out := map[string]e2e.Delivered{}
		for _, m := range up.Snapshot() {
			if !m.AckSent {
				continue
			}
			for _, e := range m.Entries {
				d := e2eDelivered(e)
				if d.Stamp != "" {
					if _, ok := out[d.Stamp]; !ok {
						out[d.Stamp] = d
					}
				}
			}
		}
		return out
	}
	type want struct {
		rec   e2e.Rec
		where string
		span  int // in-stream: bytes from the start of the previous valid record on the connection to the end of this one
	}
	var demanded []want
	nb := 3 + r.Intn(3)
	if bigMode {
		nb = 2
	}
	connID := 9000 + idx*100
	if idx == 0 && !bigMode {
		// Probe for the recorded finding sentinel-cut:after-buffer-filling-garbage, as deterministic as a socket allows: a valid
		// record, then short lines that are not record starts up to 10 bytes short of 3 x record limit, then the first 60
		// bytes of a valid record, a pause shorter than the flush interval, then the rest.
		connID++
		R := defs.InputLogMaxRecordBytes
		first := e2e.Rec{Conn: connID, Seq: 1, App: "appB", Sev: 3, Host: "h2", Kind: "plain"}
		sent := e2e.Rec{Conn: connID, Seq: 2, App: "appA", Sev: 6, Host: "h1", Kind: "plain", Pad: 40}
		last := e2e.Rec{Conn: connID, Seq: 3, App: "appB", Sev: 3, Host: "h2", Kind: "plain"}
		var sb bytes.Buffer
		sb.WriteString(first.Line() + "\n")
		for sb.Len() < 3*R-10-8 {
			sb.WriteString("garbage\n")
		}
		for sb.Len() < 3*R-10-1 {
			sb.WriteByte('g')
		}
		sb.WriteByte('\n')
		part1 := append(append([]byte(nil), sb.Bytes()...), sent.Line()[:60]...)
		part2 := []byte(sent.Line()[60:] + "\n" + last.Line() + "\n")
		if conn, err := net.DialTimeout("tcp", a.Addr, 5*time.Second); err == nil {
			tc := conn.(*net.TCPConn)
			_, e1 := tc.Write(part1)
			time.Sleep(3 * time.Millisecond)
			_, e2 := tc.Write(part2)
			_ = tc.CloseWrite()
			_ = tc.SetReadDeadline(time.Now().Add(20 * time.Second))
			var one [8]byte
			_, _ = tc.Read(one[:])
			_ = tc.Close()
			if e1 == nil && e2 == nil {
				demanded = append(demanded, want{sent, "in-stream", len(part1) + len(part2) - len(last.Line()) - 1})
				c.Event("stageB_overflow_probe", 1)
			}
		}
	}
	if idx == 3 && bigMode {
		// Boundary probe at the default sizes: well-formed records whose serialized message is exactly 65535, 65536 and 65537
		// bytes (the msgpack str16 / str32 switch) between ordinary ones, all demanded like sentinels: a wrong header makes
		// the whole chunk undecodable and takes the neighbours with it.
		connID++
		var sb bytes.Buffer
		var probe []want
		seq := 0
		for _, L := range []int{0, 65535, 65536, 65537, 0} {
			seq++
			rec := e2e.Rec{Conn: connID, Seq: seq, App: "appA", Sev: 6, Host: "h1", Kind: "plain"}
			if L > 0 {
				rec.Pad = L - len("S="+rec.Stamp()+";") - 1
			}
			sb.WriteString(rec.Line() + "\n")
			probe = append(probe, want{rec, "length-probe", 0})
		}
		if conn, err := net.DialTimeout("tcp", a.Addr, 5*time.Second); err == nil {
			tc := conn.(*net.TCPConn)
			_, werr := tc.Write(sb.Bytes())
			_ = tc.CloseWrite()
			_ = tc.SetReadDeadline(time.Now().Add(20 * time.Second))
			var one [8]byte
			_, _ = tc.Read(one[:])
			_ = tc.Close()
			if werr == nil {
				demanded = append(demanded, probe...)
				c.Event("stageB_length_probe_records", len(probe))
			}
		}
	}
	for b := 0; b < nb; b++ {
		nconn := 1 + r.Intn(3)
		var wg sync.WaitGroup
		var streams [][]byte
		var ends []string
		var wants [][]want
		var atomicRanges [][][2]int // per connection: byte ranges of the in-stream sentinels, never split across two writes
		var writeSizes, rstDelays []int
		for k := 0; k < nconn; k++ {
			connID++
			var sb bytes.Buffer
			var ws []want
			var ranges [][2]int
			prevValidStart := 0 // start of the last line known to be a valid record start (the stream start counts)
			nseg := 1 + r.Intn(6)
			seq := 0
			for s := 0; s < nseg; s++ {
				var h []byte
				switch {
				case bigMode && s == 0:
					h = bytes.Repeat([]byte{byte('a' + r.Intn(26))}, []int{3 * 1024 * 1024, 4*1024*1024 + 100, 1024*1024 + 300}[r.Intn(3)])
					if r.Intn(3) != 0 {
						// a complete, well-formed record with a header field of several megabytes
						toks := []string{"<134>1", "2021-03-04T05:06:07Z", "h1", "appA", "1001", "src1", "-", "[Cls] big header field"}
						toks[[]int{2, 3, 5, 6}[r.Intn(4)]] = string(h)
						h = []byte(strings.Join(toks, " "))
					}
				case !bigMode && r.Intn(10) == 0:
					h = bytes.Repeat([]byte("x\xff"), (40000+r.Intn(150000))/2)
				default:
					h = genInput(r, limit)
					if len(h) > 200000 {
						h = h[:200000]
					}
				}
				sb.Write(h)
				sb.WriteByte('\n')
				if len(h) < limit && r.Intn(2) == 0 {
					// in-stream sentinel followed at once by a guard record, so nothing can be attached to the sentinel
					seq++
					sent := e2e.Rec{Conn: connID, Seq: seq, App: "appA", Sev: 6, Host: "h1", Kind: []string{"plain", "esc", "email"}[r.Intn(3)], Pad: r.Intn(50)}
					seq++
					guard := e2e.Rec{Conn: connID, Seq: seq, App: "appB", Sev: 3, Host: "h2", Kind: "plain"}
					// A sentinel is demanded intact, so its bytes must arrive without a pause inside them: when this harness is
					// descheduled between two writes for longer than the input flush interval, the reader legitimately hands over
					// what it has (the documented flush on read time-out), which would cut a line that straddles the two writes.
					ranges = append(ranges, [2]int{sb.Len(), sb.Len() + len(sent.Line()) + 1})
					span := sb.Len() + len(sent.Line()) + 1 - prevValidStart
					prevValidStart = sb.Len() + len(sent.Line()) + 1 // the guard
					sb.WriteString(sent.Line() + "\n" + guard.Line() + "\n")
					ws = append(ws, want{sent, "in-stream", span})
				}
			}
			end := []string{"close", "rst", "halfline-rst", "halfline-close"}[r.Intn(4)]
			if strings.HasPrefix(end, "halfline") {
				sb.WriteString("<134>1 2021-03-04T05:06:07Z h1 appA 1 s - half line without newl")
			}
			streams = append(streams, sb.Bytes())
			ends = append(ends, end)
			wants = append(wants, ws)
			atomicRanges = append(atomicRanges, ranges)
			writeSizes = append(writeSizes, 1+r.Intn(8000))
			rstDelays = append(rstDelays, r.Intn(20))
		}
		// the batch is on disk before anything is sent
		c.LogCase(fmt.Sprintf("B:%d:batch%d", idx, b))
		for k, s := range streams {
			_ = os.WriteFile(filepath.Join(c.WorkDir(), fmt.Sprintf("current-batch-conn%d", k)), s, 0o644)
			if os.Getenv("VERIF_DEBUG") != "" {
				_ = os.WriteFile(filepath.Join(c.WorkDir(), fmt.Sprintf("batch%d-conn%d-ws%d-%s", b, k, writeSizes[k], ends[k])), s, 0o644)
			}
		}
		written := make([]bool, nconn)
		for k := range streams {
			wg.Add(1)
			go func(k int) {
				defer wg.Done()
				conn, err := net.DialTimeout("tcp", a.Addr, 5*time.Second)
				if err != nil {
					return
				}
				tc := conn.(*net.TCPConn)
				data := streams[k]
				ws := writeSizes[k]
				ok := true
				for off := 0; off < len(data) && ok; {
					n := ws
					if off+n > len(data) {
						n = len(data) - off
					}
					for _, ar := range atomicRanges[k] {
						if os.Getenv("VERIF_C07_NOATOMIC") != "" {
							break
						}
						if ar[0] < off+n && off+n < ar[1] { // the write would end inside a sentinel: extend it to the sentinel's end
							n = ar[1] - off
						}
					}
					_ = tc.SetWriteDeadline(time.Now().Add(30 * time.Second))
					w, err := tc.Write(data[off : off+n])
					off += w
					if err != nil {
						ok = false
					}
				}
				written[k] = ok
				switch ends[k] {
				case "rst", "halfline-rst":
					time.Sleep(time.Duration(rstDelays[k]) * time.Millisecond)
					_ = tc.SetLinger(0)
					_ = tc.Close()
				default:
					_ = tc.CloseWrite()
					_ = tc.SetReadDeadline(time.Now().Add(20 * time.Second))
					var one [8]byte
					_, _ = tc.Read(one[:])
					_ = tc.Close()
				}
			}(k)
		}
		wg.Wait()
		c.Event("stageB_batches", 1)
		c.Event("stageB_connections", nconn)
		for k := range streams {
			c.Event("stageB_bytes_sent", len(streams[k]))
			// an abrupt disconnect may discard what the agent had not read yet: only gracefully closed connections count
			if written[k] && (ends[k] == "close" || ends[k] == "halfline-close") {
				demanded = append(demanded, wants[k]...)
			}
		}
		// the agent must still accept connections and deliver a sentinel sent on a fresh one
		connID++
		post := e2e.Rec{Conn: connID, Seq: 1, App: "appC", Sev: 6, Host: "h1", Kind: "plain", Pad: b}
		conn, err := net.DialTimeout("tcp", a.Addr, 5*time.Second)
		if err != nil {
			c.Violation("listener-dead", fmt.Sprintf("after batch %d of stage-B case %d the syslog port no longer accepts connections: %v", b, idx, err), batchWitness(streams, ends))
			break
		}
		_, _ = conn.Write([]byte(post.Line() + "\n"))
		_ = conn.(*net.TCPConn).CloseWrite()
		var one [8]byte
		_ = conn.SetReadDeadline(time.Now().Add(20 * time.Second))
		_, _ = conn.Read(one[:])
		_ = conn.Close()
		ok := false
		for dl := time.Now().Add(15 * time.Second); time.Now().Before(dl); {
			if _, ok = delivered()[post.Stamp()]; ok {
				break
			}
			time.Sleep(3 * time.Millisecond)
		}
		if !ok {
			c.Violation("sentinel-not-delivered:fresh-connection", fmt.Sprintf("a valid record sent on a fresh connection after batch %d of stage-B case %d was not delivered within 15 s", b, idx), batchWitness(streams, ends))
			break
		}
		demanded = append(demanded, want{post, "fresh-connection", 0})
	}
	// let the in-stream sentinels arrive (bounded), then stop
	for dl := time.Now().Add(10 * time.Second); time.Now().Before(dl); {
		d := delivered()
		all := true
		for _, w := range demanded {
			if _, ok := d[w.rec.Stamp()]; !ok {
				all = false
			}
		}
		if all {
			break
		}
		time.Sleep(5 * time.Millisecond)
	}
	done := make(chan struct{})
	go func() { a.Stop(); close(done) }()
	select {
	case <-done:
	case <-time.After(60 * time.Second):
		c.Violation("stop-stuck-after-hostile-input", "the agent did not stop within 60 s after hostile input; parked in "+strings.Join(vkit.StuckInAgent(stackAll()), ", "), nil)
		return
	}
	c.Eval(1)
	d := delivered()
	dropped := vkit.Sum(a.GatherMetrics(), "slogagent_input_dropped_records_total", nil)
	c.Event("stageB_input_dropped_records", int(dropped))
	for _, w := range demanded {
		got, ok := d[w.rec.Stamp()]
		if !ok {
			if w.where == "in-stream" && w.span >= 3*defs.InputLogMaxRecordBytes {
				// the same recorded failure with the cut falling inside the header: neither fragment is a record
				c.Violation("sentinel-cut:after-buffer-filling-garbage", fmt.Sprintf("valid record %s was not delivered: %d bytes of lines that are not record starts precede it on the connection since the last valid record "+
					"(reader buffer %d, record limit %d): checkOverflow handed over a fragment of its line", w.rec.Stamp(), w.span, defs.ListenerLineBufferSize, defs.InputLogMaxRecordBytes), map[string]any{"line": w.rec.Line(), "span": w.span})
				continue
			}
			c.Violation("sentinel-not-delivered:"+w.where, fmt.Sprintf("valid record %s (%s, stage-B case %d) surrounded by hostile input was not delivered", w.rec.Stamp(), w.where, idx), map[string]any{"line": w.rec.Line()})
			continue
		}
		wf, we, _, _ := w.rec.Expected()
		bad := []string{}
		for k, v := range wf {
			if got.Fields[k] != v {
				bad = append(bad, fmt.Sprintf("%s: got %q want %q", k, trunc([]byte(got.Fields[k]), 80), trunc([]byte(v), 80)))
			}
		}
		for k, v := range we {
			if got.Env[k] != v {
				bad = append(bad, fmt.Sprintf("environment.%s: got %q want %q", k, got.Env[k], v))
			}
		}
		if len(bad) > 0 {
			// One specific, recorded failure (KNOWN_FINDINGS.txt): the lines between the previous valid record and this one -
			// which the reader keeps buffered as one unfinished "record" - fill the connection buffer up to the point where
			// less than one record limit is free while this record's line has only partly arrived; multiLineReader.checkOverflow
			// then hands over the fragment it has (and the rest of the line later, as garbage). Recognised by: delivered log is
			// a proper prefix of the sent message, and the span since the previous valid record reaches 3 x record limit.
			if raw := w.rec.RawMessage(); w.where == "in-stream" && w.span >= 3*defs.InputLogMaxRecordBytes && len(got.Fields["log"]) < len(raw) &&
				(strings.HasPrefix(raw, got.Fields["log"]) || strings.HasPrefix(wf["log"], got.Fields["log"])) && len(bad) == 1 && strings.HasPrefix(bad[0], "log:") {
				c.Violation("sentinel-cut:after-buffer-filling-garbage", fmt.Sprintf("valid record %s was delivered cut (%q): %d bytes of lines that are not record starts precede it on the connection since the last valid record, "+
					"the reader's buffer (%d) had less than one record limit (%d) free when the record's line had partly arrived, and checkOverflow handed over the fragment",
					w.rec.Stamp(), trunc([]byte(got.Fields["log"]), 60), w.span, defs.ListenerLineBufferSize, defs.InputLogMaxRecordBytes), map[string]any{"line": w.rec.Line(), "span": w.span})
				continue
			}
			c.Violation("sentinel-corrupted:"+w.where, fmt.Sprintf("valid record %s (%s) was delivered altered: %s", w.rec.Stamp(), w.where, strings.Join(bad, "; ")), map[string]any{"line": w.rec.Line()})
			continue
		}
		c.Event("stageB_sentinels_delivered", 1)
	}
	c.Nontrivial(fmt.Sprintf("B:%d:big%v:dropped%d", idx, bigMode, int(dropped)))
	if idx < 2 {
		c.Sample(map[string]any{"stage": "B", "case": idx, "default_sizes": bigMode, "batches": nb, "sentinels_demanded": len(demanded), "input_dropped_records": int(dropped)})
	}
}

func batchWitness(streams [][]byte, ends []string) map[string]any {
	w := map[string]any{"ends": ends}
	for k, s := range streams {
		w[fmt.Sprintf("conn%d_len", k)] = len(s)
		w[fmt.Sprintf("conn%d_head", k)] = fmt.Sprintf("%q", trunc(s, 400))
	}
	return w
}

func e2eDelivered(e upstream.Entry) e2e.Delivered {
	d := e2e.Delivered{Fields: map[string]string{}, Env: map[string]string{}, Time: e.Time}
	for k, v := range e.Record {
		if k == "environment" {
			if m, ok := v.(map[string]interface{}); ok {
				for ek, ev := range m {
					d.Env[ek] = fmt.Sprint(ev)
				}
			}
			continue
		}
		d.Fields[k] = fmt.Sprint(v)
	}
	d.Stamp = e2e.StampOf(d.Fields["log"])
	return d
}

// rstProbeChild: "abrupt disconnects ... still delivers the well-formed records that surround the bad input". A complete,
// well-formed record that the agent has already read is held back in the connection's reader until the next record start or
// the next flush tick; when the client then resets the connection, the record must still be handed over. The flush interval
// is made long (2 s) so that the reset, 150 ms after the record, certainly comes before any tick; data the agent had NOT read
// when the reset arrived is legitimately gone with the socket, so the probe is repeated (at most three connections) and only
// "lost every time" is a violation.
func rstProbeChild(c *vkit.Ctx) {
	sc := e2e.Scenario{ID: "rst", Outputs: 1, Mode: "Forward", MemWindow: 8, QueueCap: 2000, ChunkBytes: 3000, BatchLogs: 7, MaxPending: 10}
	t := e2e.DefaultTimeouts
	t.InputFlush = 2 * time.Second
	e2e.SetDefs(sc, t)
	root := filepath.Join(c.WorkDir(), "rstprobe")
	_ = os.MkdirAll(root, 0o755)
	up, err := upstream.New("out1", &upstream.Clock{}, nil)
	if err != nil {
		c.Inconclusive("no upstream: " + err.Error())
		return
	}
	defer up.Close()
	cfgPath := filepath.Join(root, "config.yml")
	_ = os.WriteFile(cfgPath, []byte(e2e.ConfigYAML(sc, root, []string{up.Addr()})), 0o644)
	a, err := e2e.StartAgent(cfgPath, false)
	if err != nil {
		c.Inconclusive("agent did not start: " + err.Error())
		return
	}
	c.LogCase("rst-probe")
	deliveredOnce := false
	attempts := 0
	for k := 1; k <= 3 && !deliveredOnce; k++ {
		attempts++
		rec := e2e.Rec{Conn: 7700 + k, Seq: 1, App: "appA", Sev: 6, Host: "h1", Kind: "plain", Pad: 10}
		conn, err := net.DialTimeout("tcp", a.Addr, 5*time.Second)
		if err != nil {
			c.Inconclusive("rst probe: dial: " + err.Error())
			break
		}
		tc := conn.(*net.TCPConn)
		_, _ = tc.Write([]byte(rec.Line() + "\n"))
		time.Sleep(150 * time.Millisecond) // far below the 2 s flush interval, far above what the agent needs to read 100 bytes
		_ = tc.SetLinger(0)
		_ = tc.Close()
		for dl := time.Now().Add(1500 * time.Millisecond); time.Now().Before(dl) && !deliveredOnce; {
			for _, m := range up.Snapshot() {
				for _, e := range m.Entries {
					if d := e2eDelivered(e); d.Stamp == rec.Stamp() {
						deliveredOnce = true
					}
				}
			}
			time.Sleep(5 * time.Millisecond)
		}
	}
	c.Eval(1)
	c.Event("rst_probe_connections", attempts)
	if deliveredOnce {
		c.Event("rst_probe_delivered", 1)
		c.Nontrivial("rst-probe")
	} else if attempts == 3 {
		c.Violation("record-lost-at-reset", "a complete well-formed record, read by the agent 150 ms before the client reset the connection (flush interval 2 s), was not delivered - on three connections in a row", nil)
	}
	done := make(chan struct{})
	go func() { a.Stop(); close(done) }()
	select {
	case <-done:
	case <-time.After(60 * time.Second):
	}
}
