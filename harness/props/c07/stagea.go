package main

// Stage A: each hostile input goes through exactly what a connection would put it through — the input's composite parser
// (with the configured extractions), key extraction and pipeline creation in the real by-key-set orchestrator (metric
// labels are created there), SelectMetricKeySet, the transform list, every output's SerializeRecord, Release and
// WriteStream — synchronously, under recover, with the input written to disk first. After hostile inputs a fixed valid
// sentinel record is processed and its serialized bytes compared with the reference taken on a fresh pipeline.

import (
	"bytes"
	"fmt"
	"os"
	"path/filepath"
	"strings"
	"time"

	"github.com/relex/gotils/logger"
	"github.com/relex/gotils/promexporter/promreg"
	"github.com/relex/slog-agent/base"
	"github.com/relex/slog-agent/base/bsupport"
	"github.com/relex/slog-agent/defs"
	"github.com/relex/slog-agent/orchestrate/obykeyset"
	"github.com/relex/slog-agent/run"
)

const kitchenSink = `
schema:
  fields: [facility, level, time, host, app, pid, source, extradata, log, class, task, vhost, short, mapped, num, dup1, dup2, mid]
  maxFields: 20
inputs:
  - type: syslog
    address: 127.0.0.1:0
    levelMapping: [off, fatal, crit, error, warn, notice, info, debug]
    extractions:
      - type: extractHead
        key: log
        pattern: '\[*\] '
        maxLen: 40
        destKey: class
      - type: extractTail
        key: source
        pattern: :[0-9a-f-]
        maxLen: 41
        destKey: task
      - type: extractTail
        key: app
        pattern: /*
        maxLen: 100
        destKey: vhost
orchestration:
  type: byKeySet
  keys: [app, level]
  tag: t.$app.${level[:3]}
metricKeys: [host, vhost]
transformations:
  - type: addFields
    fields:
      short: ${log[:10]}${host[-3:]}
      mapped: $level
      dup1: $log
      dup2: $app $log
      mid: ${host[1:-2]}|${app[2:-3]}|${source[-3:2]}|${host[1:-1]}
  - type: mapValue
    key: mapped
    mapping:
      info: I
      error: E
    default: other
  - type: switch
    cases:
      - match:
          class: DROPME
        then:
          - type: drop
            match:
              class: DROPME
            percentage: 100
            metricLabel: filtered
      - match:
          log: !!regex ^P(OS|U)T
        then:
          - type: truncate
            key: log
            maxLen: 20
            suffix: '...'
      - match:
          host: !!glob e*s
          level: !!str-not info
        then:
          - type: replace
            key: log
            pattern: '\s+'
            replacement: ' '
  - type: extract
    key: log
    pattern: 'n=(?P<num>\d+)'
  - type: if
    match:
      log: !!len-gt 30
    then:
      - type: truncate
        key: short
        maxLen: 5
        suffix: '~'
  - type: unescape
    key: log
  - type: redactEmail
    key: log
    metricLabel: redacted
  - type: block
    steps:
      - type: parseTime
        key: time
        errorLabel: timeError
      - type: delFields
        keys: [time]
outputBufferPairs:
  - name: fwd
    buffer: {type: hybridBuffer, rootPath: ROOT/q1, maxBufSize: 1GB}
    output:
      type: fluentdForward
      serialization:
        environmentFields: [host, app, vhost]
        hiddenFields: [class]
        rewriteFields:
          log:
            - type: inline
              field: class
            - type: unescape
          short:
            - type: copy
      messageMode: Forward
      upstream: {address: 127.0.0.1:1, tls: false, secret: "", maxDuration: 10m}
  - name: dd
    buffer: {type: hybridBuffer, rootPath: ROOT/q2, maxBufSize: 1GB}
    output:
      type: datadog
      serialization:
        hiddenFields: [class, task]
      upstream: {address: http://127.0.0.1:1/x, httpTimeout: 1s}
`

func configText(name, root string) string {
	switch name {
	case "sample":
		b, err := os.ReadFile("/repo/testdata/config_sample.yml")
		if r := os.Getenv("VERIF_REPO"); r != "" {
			b, err = os.ReadFile(filepath.Join(r, "testdata/config_sample.yml"))
		}
		if err != nil {
			panic(err)
		}
		s := string(b)
		s = strings.Replace(s, "rootPath: /tmp/slog-buffer-fluentd", "rootPath: "+root+"/q1", 1)
		s = strings.Replace(s, "rootPath: /tmp/slog-buffer-datadog", "rootPath: "+root+"/q2", 1)
		s = strings.Replace(s, "address: localhost:5140", "address: 127.0.0.1:0", 1)
		return s
	default:
		return strings.ReplaceAll(kitchenSink, "ROOT", root)
	}
}

type procResult struct {
	status string // passed | dropped | panic
	pan    string
	out    []byte
}

type worldA struct {
	cfgName   string
	conf      run.Config
	schema    base.LogSchema
	alloc     *base.LogAllocator
	parser    base.LogParser
	inCounter *base.LogInputCounterSet
	mf        *promreg.MetricFactory
	orc       base.Orchestrator
	sink      base.BufferReceiverSink
	results   chan procResult
	pipelines int
	fed       int
	calls     int64
}

func newWorldA(cfgName, work string) (*worldA, error) {
	root := filepath.Join(work, "wa")
	_ = os.MkdirAll(root, 0o755)
	path := filepath.Join(root, "config-"+cfgName+".yml")
	if err := os.WriteFile(path, []byte(configText(cfgName, root)), 0o644); err != nil {
		return nil, err
	}
	conf, schema, _, err := run.ParseConfigFile(path)
	if err != nil {
		return nil, err
	}
	w := &worldA{cfgName: cfgName, conf: conf, schema: schema, results: make(chan procResult, 16)}
	w.alloc = base.NewLogAllocator(schema, len(conf.OutputBuffersPairs))
	w.mf = promreg.NewMetricFactory("c07_", nil, nil)
	w.inCounter = base.NewLogInputCounter(w.mf.AddOrGetPrefix("input_", nil, nil))
	w.parser, err = conf.Inputs[0].Value.NewParser(logger.Root(), w.alloc, schema, w.inCounter)
	if err != nil {
		return nil, err
	}
	oc := conf.Orchestration.Value.(*obykeyset.Config)
	mkLoc := schema.MustCreateFieldLocators(conf.MetricKeys)
	names := []string{}
	for _, p := range conf.OutputBuffersPairs {
		names = append(names, p.Name)
	}
	starter := func(plog logger.Logger, mc promreg.MetricCreator, input <-chan []*base.LogRecord, bufferID string, tag string, onStopped func()) {
		// what PrepareSequentialPipeline builds per pipeline, minus buffer and forwarder
		procCounter := base.NewLogProcessCounter(mc, schema, mkLoc, names)
		transforms := bsupport.NewTransformsFromConfig(conf.Transformations, schema, plog, procCounter)
		type outp struct {
			ser base.LogSerializer
			mk  base.LogChunkMaker
		}
		var outs []outp
		for _, p := range conf.OutputBuffersPairs {
			outs = append(outs, outp{p.OutputConfig.Value.NewSerializer(plog, schema, tag), p.OutputConfig.Value.NewChunkMaker(plog, tag)})
		}
		w.pipelines++
		one := func(rec *base.LogRecord) (res procResult) {
			defer func() {
				if p := recover(); p != nil {
					res = procResult{status: "panic", pan: fmt.Sprint(p) + "\n" + stackOf()}
				}
			}()
			// the loop body of LogProcessingWorker.onInput
			icounter := procCounter.SelectMetricKeySet(rec)
			if bsupport.RunTransforms(rec, transforms) == base.DROP {
				icounter.CountRecordDrop(rec)
				w.alloc.Release(rec)
				return procResult{status: "dropped"}
			}
			icounter.CountRecordPass(rec)
			var all []byte
			for i, o := range outs {
				stream := o.ser.SerializeRecord(rec)
				w.alloc.Release(rec)
				procCounter.CountStream(i, stream)
				all = append(all, stream...)
				all = append(all, 0xFE, byte(i))
				if ch := o.mk.WriteStream(stream); ch != nil {
					procCounter.CountChunk(i, ch)
				}
			}
			return procResult{status: "passed", out: all}
		}
		go func() {
			defer onStopped()
			for batch := range input {
				for _, rec := range batch {
					w.results <- one(rec)
				}
			}
			for _, o := range outs {
				func() {
					defer func() { _ = recover() }()
					o.mk.FlushBuffer()
				}()
			}
			procCounter.UpdateMetrics()
		}()
	}
	w.orc = obykeyset.NewOrchestrator(logger.Root(), schema, oc.Keys, oc.TagTemplate, w.mf, starter, nil)
	w.sink = w.orc.NewSink("harness", 7)
	return w, nil
}

func stackOf() string {
	buf := make([]byte, 8192)
	n := runtimeStack(buf)
	return string(buf[:n])
}

var fixedNow = time.Date(2022, 3, 4, 5, 6, 7, 0, time.UTC)

// feed runs one input through the whole path. wedged: the path did not return within the watchdog.
func (w *worldA) feed(in []byte) (res procResult, wedged bool) {
	done := make(chan procResult, 1)
	go func() {
		defer func() {
			if p := recover(); p != nil {
				done <- procResult{status: "panic", pan: fmt.Sprint(p) + "\n" + stackOf()}
			}
		}()
		w.calls++
		rec := w.parser.Parse(append([]byte(nil), in...), fixedNow)
		if rec == nil {
			done <- procResult{status: "rejected"}
			return
		}
		w.sink.Accept([]*base.LogRecord{rec})
		done <- <-w.results
	}()
	select {
	case r := <-done:
		w.fed++
		return r, false
	case <-time.After(60 * time.Second):
		return procResult{status: "wedged", pan: stackAll()}, true
	}
}

func (w *worldA) close() {
	defer func() { _ = recover() }()
	w.sink.Close()
	done := make(chan struct{})
	go func() { defer func() { _ = recover(); close(done) }(); w.orc.Shutdown() }()
	select {
	case <-done:
	case <-time.After(5 * time.Second):
	}
}

func setDefsA(limit int) {
	defs.InputLogMaxMessageBytes = limit
	defs.InputLogMaxRecordBytes = limit + 256
	defs.ListenerLineBufferSize = defs.InputLogMaxRecordBytes * 4
	defs.IntermediateBufferMaxNumLogs = 1 // every record is flushed to its pipeline at once
	defs.IntermediateChannelTimeout = 5 * time.Second
}

var sentinels = [][]byte{
	[]byte("<134>1 2021-03-04T05:06:07.000001+02:00 h1 appA 1001 src1 - [Cls] S=1-1; sentinel one a\\nb"),
	[]byte("<163>1 2019-08-15T15:50:46.866915+03:00 local my-app 123 fn - Sentinel two me@example.com"),
	[]byte("<131>1 2020-09-17T16:51:47.867Z errors appServ/foo.com 51629 cron.log - [MyClass] - sentinel three"),
}

func sameOut(a, b procResult) bool { return a.status == b.status && bytes.Equal(a.out, b.out) }
