// C13 — timestamps are parsed exactly and parsing is total.
//
// Oracle: Go's time.Parse on the same string (two layouts), compared to the nanosecond with the record's
// Timestamp after the real parseTime transform; error <=> counter +1 and fallback untouched.
package main

import (
	"fmt"
	"os"
	"regexp"
	"strings"
	"sync"
	"sync/atomic"
	"time"

	"github.com/relex/gotils/logger"
	"github.com/relex/slog-agent/base"
	"github.com/relex/slog-agent/transform/tparsetime"
	"github.com/relex/slog-agent/util"

	"verifharness/internal/vkit"
)

const (
	layoutColon   = "2006-01-02T15:04:05.999999999Z07:00"
	layoutCompact = "2006-01-02T15:04:05.999999999Z0700"
)

type counterReg struct{ n map[string]*int64 }

func (r *counterReg) RegisterCustomCounter(label string) func(length int) {
	p, ok := r.n[label]
	if !ok {
		p = new(int64)
		r.n[label] = p
	}
	return func(int) { *p++ }
}

type engine struct {
	c        *vkit.Ctx
	schema   base.LogSchema
	tf       base.LogTransform
	errCount *int64
	fallback time.Time
}

func newEngine(c *vkit.Ctx) *engine {
	schema := base.MustNewLogSchema([]string{"time"})
	cfg := &tparsetime.Config{}
	if err := util.UnmarshalYamlString("type: parseTime\nkey: time\nerrorLabel: timeError\n", cfg); err != nil {
		panic(err)
	}
	if err := cfg.VerifyConfig(schema); err != nil {
		panic(err)
	}
	reg := &counterReg{n: map[string]*int64{}}
	tf := cfg.NewTransform(schema, logger.Root(), reg)
	return &engine{c: c, schema: schema, tf: tf, errCount: reg.n["timeError"],
		fallback: time.Date(2001, 2, 3, 4, 5, 6, 789, time.UTC)}
}

// run applies the transform; returns (timestamp after, errors counted, panic value)
func (e *engine) run(s string) (ts time.Time, errs int64, pan any) {
	// heap-backed, mutable copy like a parsed field value
	val := string(append([]byte(nil), s...))
	rec := e.schema.NewTestRecord2(e.fallback, base.LogFields{val})
	before := *e.errCount
	func() {
		defer func() { pan = recover() }()
		e.tf.Transform(rec)
	}()
	return rec.Timestamp, *e.errCount - before, pan
}

var strictShape = regexp.MustCompile(`^[0-9]{4}-[0-9]{2}-[0-9]{2}T[0-9]{2}:[0-9]{2}:[0-9]{2}(\.[0-9]{1,9})?(Z|[+-][0-9]{2}:?[0-9]{2})$`)

// refParse: a stamp is valid iff it has the strict RFC 3339 shape (time.Parse alone is lenient about field
// widths) and time.Parse accepts it; the instant is time.Parse's.
func refParse(s string) (time.Time, bool) {
	if !strictShape.MatchString(s) {
		return time.Time{}, false
	}
	if t, err := time.Parse(layoutColon, s); err == nil {
		return t, true
	}
	if t, err := time.Parse(layoutCompact, s); err == nil {
		return t, true
	}
	return time.Time{}, false
}

// notShaped: certainly not shaped like a date-time — shorter than "YYYY-MM-DDTHH:MM:SS" or a wrong separator.
// Position 10 is exempt when it holds 't' or ' ' (RFC 3339 allows those; the property does not decide them).
func notShaped(s string) bool {
	if len(s) < 19 {
		return true
	}
	if s[4] != '-' || s[7] != '-' || s[13] != ':' || s[16] != ':' {
		return true
	}
	if s[10] != 'T' && s[10] != 't' && s[10] != ' ' {
		return true
	}
	return false
}

func class(s string) string {
	// equivalence class of a valid stamp: fraction digits, offset form
	frac := 0
	rest := s[19:]
	if strings.HasPrefix(rest, ".") {
		i := 1
		for i < len(rest) && rest[i] >= '0' && rest[i] <= '9' {
			i++
		}
		frac = i - 1
		rest = rest[i:]
	}
	form := "Z"
	if rest != "Z" {
		if strings.Contains(rest, ":") {
			form = "colon"
		} else {
			form = "compact"
		}
	}
	return fmt.Sprintf("frac%d/%s", frac, form)
}

// checkValid decides clause 1 on a stamp the reference accepts.
func (e *engine) checkValid(s string) {
	want, ok := refParse(s)
	if !ok {
		e.checkOther(s)
		return
	}
	e.c.Eval(1)
	got, errs, pan := e.run(s)
	cl := class(s)
	e.c.Nontrivial("valid:" + cl + ":" + boundaryTag(s))
	e.c.Event("valid_stamps", 1)
	switch {
	case pan != nil:
		e.c.Violation("panic:valid:"+cl, fmt.Sprintf("parseTime panics on valid RFC 3339 stamp %q: %v", s, pan), map[string]any{"input": s})
	case errs != 0:
		e.c.Violation("rejected:"+cl, fmt.Sprintf("valid RFC 3339 stamp %q counted as error", s), map[string]any{"input": s})
	case !got.Equal(want) || got.Nanosecond() != want.Nanosecond():
		e.c.Violation("inexact:"+cl, fmt.Sprintf("stamp %q: record time %s (ns=%d) != denoted instant %s (ns=%d)",
			s, got.UTC().Format(time.RFC3339Nano), got.Nanosecond(), want.UTC().Format(time.RFC3339Nano), want.Nanosecond()),
			map[string]any{"input": s, "got_unix": got.Unix(), "got_ns": got.Nanosecond(), "want_unix": want.Unix(), "want_ns": want.Nanosecond()})
	}
}

func boundaryTag(s string) string {
	// which calendar boundary the stamp sits on, for distinctness counting
	tags := ""
	if strings.HasPrefix(s[5:], "02-29") {
		tags += "leap"
	}
	if strings.HasPrefix(s[11:], "23:59:59") {
		tags += "eod"
	}
	if strings.HasPrefix(s[11:], "00:00:00") {
		tags += "sod"
	}
	return tags
}

// checkBrokenZone: a valid date-time followed by a truncated or wrongly separated zone suffix must be an error, counted once,
// with the fallback time kept - also when the same suffix has been seen before (rep > 0).
func (e *engine) checkBrokenZone(s string, rep int) {
	e.c.Eval(1)
	got, errs, pan := e.run(s)
	e.c.Event("broken_zone_strings", 1)
	e.c.Nontrivial(fmt.Sprintf("broken-zone:%s:rep%d", s[19:], rep))
	switch {
	case pan != nil:
		e.c.Violation("panic:broken-zone", fmt.Sprintf("parseTime panics on %q: %v", s, pan), map[string]any{"input": s})
	case errs != 1:
		e.c.Violation("broken-zone:not-counted", fmt.Sprintf("%q (a good date-time with a truncated / wrongly separated zone, presentation %d of that suffix) counted %d errors (want 1)", s, rep+1, errs), map[string]any{"input": s, "presentation": rep + 1})
	case !got.Equal(e.fallback) || got.Nanosecond() != e.fallback.Nanosecond():
		e.c.Violation("broken-zone:fallback-changed", fmt.Sprintf("%q (presentation %d of that suffix): the fallback time was replaced by %s", s, rep+1, got), map[string]any{"input": s})
	}
}

// checkOther decides clauses 2 and 3 on a string the reference rejects.
func (e *engine) checkOther(s string) {
	e.c.Eval(1)
	got, errs, pan := e.run(s)
	e.c.Event("other_strings", 1)
	shape := "shaped"
	if s == "" {
		shape = "empty"
	} else if notShaped(s) {
		shape = "notshaped"
	}
	e.c.Nontrivial(fmt.Sprintf("other:%s:len%d", shape, min(len(s), 40)))
	if pan != nil {
		e.c.Violation(fmt.Sprintf("panic:%s:len%d", shape, min(len(s), 24)), fmt.Sprintf("parseTime panics on %q: %v", s, pan),
			map[string]any{"input": s, "input_hex": fmt.Sprintf("%x", s), "panic": fmt.Sprint(pan)})
		return
	}
	switch shape {
	case "empty":
		// "field absent" in the record model: only no-panic and fallback kept are required
		if !got.Equal(e.fallback) {
			e.c.Violation("empty:fallback-changed", "empty time field changed the fallback time", map[string]any{"input": s})
		}
	case "notshaped":
		e.c.Event("notshaped_strings", 1)
		if errs != 1 {
			e.c.Violation("notshaped:not-counted", fmt.Sprintf("string %q is not shaped like a date-time but %d errors were counted (want 1)", s, errs),
				map[string]any{"input": s, "errors": errs})
		}
		if !got.Equal(e.fallback) || got.Nanosecond() != e.fallback.Nanosecond() {
			e.c.Violation("notshaped:fallback-changed", fmt.Sprintf("string %q is not shaped like a date-time but the fallback time was replaced by %s", s, got),
				map[string]any{"input": s})
		}
	default:
		// shaped but not valid (bad digits, month 13, leap second, missing offset ...): only totality, and
		// consistency of the error path: an error leaves the fallback untouched
		if errs > 0 && !got.Equal(e.fallback) {
			e.c.Violation("error-but-changed", fmt.Sprintf("string %q counted as error but fallback time replaced", s), map[string]any{"input": s})
		}
		if errs > 1 {
			e.c.Violation("double-count", fmt.Sprintf("string %q counted %d times", s, errs), map[string]any{"input": s})
		}
	}
}

func min(a, b int) int {
	if a < b {
		return a
	}
	return b
}

// instancesChild: the agent builds one parseTime transform per pipeline and runs each on its own goroutine. Here G instances,
// each on one goroutine, parse every offset in both notations (each in its own order, so the instances meet different suffixes
// for the first time at the same moment), broken zones in between; every result is compared like in the sequential stages.
func instancesChild(c *vkit.Ctx) {
	const G = 12
	var stamps []string
	for _, sign := range []string{"+", "-"} {
		for h := 0; h < 24; h++ {
			for m := 0; m < 60; m++ {
				stamps = append(stamps, fmt.Sprintf("2023-03-09T11:31:46.25%s%02d:%02d", sign, h, m), fmt.Sprintf("2023-03-09T11:31:46.250001%s%02d%02d", sign, h, m))
			}
		}
	}
	stamps = append(stamps, "2023-03-09T11:31:46Z", "2023-03-09T11:31:46+03", "2023-03-09T11:31:46+03:0", "2023-03-09T11:31:46+030", "")
	passes := c.N(3, 20)
	type bad struct{ fp, what, input string }
	var mu sync.Mutex
	var bads []bad
	var total int64
	c.LogCase(fmt.Sprintf("%d instances x %d passes x %d stamps", G, passes, len(stamps)))
	var wg sync.WaitGroup
	start := make(chan struct{})
	for g := 0; g < G; g++ {
		e := newEngine(c)
		r := c.Rand("instances", g)
		wg.Add(1)
		go func(g int) {
			defer wg.Done()
			<-start
			n := int64(0)
			for p := 0; p < passes; p++ {
				order := r.Perm(len(stamps))
				for _, i := range order {
					s := stamps[i]
					want, ok := refParse(s)
					got, errs, pan := e.run(s)
					n++
					var b *bad
					switch {
					case pan != nil:
						b = &bad{"instances:panic", fmt.Sprintf("instance %d: parseTime panics on %q: %v", g, s, pan), s}
					case ok && errs != 0:
						b = &bad{"instances:rejected", fmt.Sprintf("instance %d: valid stamp %q counted as error", g, s), s}
					case ok && !got.Equal(want):
						b = &bad{"instances:inexact", fmt.Sprintf("instance %d: stamp %q: record time %s != denoted instant %s", g, s, got.UTC().Format(time.RFC3339Nano), want.UTC().Format(time.RFC3339Nano)), s}
					case !ok && !got.Equal(e.fallback):
						b = &bad{"instances:fallback-changed", fmt.Sprintf("instance %d: %q is not a stamp but the fallback time was replaced by %s", g, s, got), s}
					case !ok && s != "" && errs != 1:
						b = &bad{"instances:not-counted", fmt.Sprintf("instance %d: %q is not a stamp but %d errors were counted (want 1)", g, s, errs), s}
					}
					if b != nil {
						mu.Lock()
						if len(bads) < 20 {
							bads = append(bads, *b)
						}
						mu.Unlock()
					}
				}
			}
			atomic.AddInt64(&total, n)
		}(g)
	}
	close(start)
	wg.Wait()
	c.Eval(int(total))
	c.Event("instances_stamps", int(total))
	c.Event("instances_goroutines", G)
	c.Nontrivial(fmt.Sprintf("instances:%d-at-once", G))
	for _, b := range bads {
		c.Violation(b.fp, b.what, map[string]any{"input": b.input, "instances": G})
	}
}

func main() {
	logger.SetLogLevel(logger.FatalLevel) // the transform warns on every malformed stamp
	c := vkit.Start("C13", "exploration")
	c.Rule("valid stamps generated from components (date, time, 0-9 fraction digits, Z/+hh:mm/+hhmm) and accepted by time.Parse; " +
		"distinct = (fraction digits, offset form, calendar boundary) class; other strings: prefixes, single-byte substitutions, " +
		"NIL, random; distinct = (shape class, length); all cases sit on a boundary the generator targets")
	c.Assume("Go's time.Parse with layouts 2006-01-02T15:04:05.999999999Z07:00 / Z0700 denotes the RFC 3339 instant")
	c.Assume("the empty string is 'field absent' in the record model: only no-panic and fallback-kept are required for it")
	if c.Child == "instances" {
		instancesChild(c)
		c.Finish()
	}
	e := newEngine(c)

	// --- exhaustive: all fractions of 0..6 digits on base instants, Z and a colon offset
	bases := []string{"2019-08-15T15:50:46", "1999-12-31T23:59:59"}
	if !c.Quick() {
		bases = append(bases, "2024-02-29T00:00:00", "2038-01-19T03:14:07")
	}
	for bi, b := range bases {
		tz := []string{"Z", "+03:00"}[bi%2]
		e.checkValid(b + tz)
		for digits := 1; digits <= 6; digits++ {
			lim := 1
			for i := 0; i < digits; i++ {
				lim *= 10
			}
			for v := 0; v < lim; v++ {
				e.checkValid(fmt.Sprintf("%s.%0*d%s", b, digits, v, tz))
			}
		}
	}
	c.Exhaustive(fmt.Sprintf("all fractions of 0-6 digits (1,111,111 values) on %d base instants", len(bases)))

	// --- exhaustive: all offsets in both notations on one instant
	for _, sign := range []string{"+", "-"} {
		for h := 0; h < 24; h++ {
			for m := 0; m < 60; m++ {
				e.checkValid(fmt.Sprintf("2022-02-07T10:30:45.123%s%02d:%02d", sign, h, m))
				e.checkValid(fmt.Sprintf("2022-02-07T10:30:45.123456%s%02d%02d", sign, h, m))
			}
		}
	}

	// --- sampled: 7..9 digit fractions, dates over years 0001-9999, boundaries
	r := c.Rand("valid", 0)
	nSample := c.N(150000, 6000000)
	mdays := []int{31, 28, 31, 30, 31, 30, 31, 31, 30, 31, 30, 31}
	// Truncated and wrongly separated zone suffixes behind a perfectly good date-time (with and without fraction): "truncated,
	// wrong separators" in the property's words. Each form is presented several times in a row, on different instants, to the
	// same transform instance - whatever the transform remembers about a suffix must not turn the second one into a success.
	for _, zone := range []string{"+", "-", "+0", "+03", "+03:", "+03:0", "+030", "-0800:", "+03.00", "+03-00", "+03 00", "+3:00", "+03:00:", "+03:000", "+0300 "} {
		for rep := 0; rep < 4; rep++ {
			for _, frac := range []string{"", ".5", ".123456789"} {
				s := fmt.Sprintf("2022-0%d-1%dT0%d:30:4%d%s%s", 1+rep, rep, rep, rep, frac, zone)
				if _, ok := refParse(s); ok {
					continue
				}
				e.checkBrokenZone(s, rep)
			}
		}
	}
	for i := 0; i < nSample; i++ {
		year := 1 + r.Intn(9999)
		if r.Intn(4) == 0 {
			year = []int{1, 1600, 1900, 1969, 1970, 2000, 2024, 2038, 2100, 2106, 9999}[r.Intn(11)]
		}
		month := 1 + r.Intn(12)
		leap := year%4 == 0 && (year%100 != 0 || year%400 == 0)
		dmax := mdays[month-1]
		if month == 2 && leap {
			dmax = 29
		}
		day := 1 + r.Intn(dmax)
		if r.Intn(3) == 0 {
			day = []int{1, dmax}[r.Intn(2)]
		}
		hh, mm, ss := r.Intn(24), r.Intn(60), r.Intn(60)
		if r.Intn(4) == 0 {
			hh, mm, ss = []int{0, 23}[r.Intn(2)], []int{0, 59}[r.Intn(2)], []int{0, 59}[r.Intn(2)]
		}
		s := fmt.Sprintf("%04d-%02d-%02dT%02d:%02d:%02d", year, month, day, hh, mm, ss)
		nd := r.Intn(10)
		if r.Intn(2) == 0 {
			nd = 7 + r.Intn(3)
		}
		if nd > 0 {
			s += "."
			for k := 0; k < nd; k++ {
				d := r.Intn(10)
				if r.Intn(5) == 0 {
					d = []int{0, 9}[r.Intn(2)]
				}
				s += string(rune('0' + d))
			}
		}
		switch r.Intn(3) {
		case 0:
			s += "Z"
		case 1:
			s += fmt.Sprintf("%s%02d:%02d", []string{"+", "-"}[r.Intn(2)], r.Intn(24), r.Intn(60))
		default:
			s += fmt.Sprintf("%s%02d%02d", []string{"+", "-"}[r.Intn(2)], r.Intn(24), r.Intn(60))
		}
		if i < 3 {
			c.Sample(map[string]any{"kind": "valid", "input": s})
		}
		e.checkValid(s)
	}

	// --- totality: prefixes, NIL, substitutions, random strings
	seeds := []string{
		"2019-08-15T15:50:46.866915+03:00", "2020-09-17T16:51:47.867Z", "2022-02-07T10:30:45.123+0200",
		"2019-08-15T15:50:46Z", "2019-08-15T15:50:46.123456789-11:30", "0001-01-01T00:00:00.000000001+00:00",
	}
	for _, s := range seeds {
		for n := 0; n <= len(s); n++ {
			e.checkOtherOrValid(s[:n])
		}
		subs := []byte{'-', ':', 'T', 't', ' ', 'Z', '+', '.', '0', '9', 'x', '/', 0x00, 0x7f, 0x80, 0xff, '\n', '\\'}
		for pos := 0; pos < len(s); pos++ {
			for _, b := range subs {
				m := []byte(s)
				m[pos] = b
				e.checkOtherOrValid(string(m))
			}
		}
		// deletions and duplications of one byte
		for pos := 0; pos < len(s); pos++ {
			e.checkOtherOrValid(s[:pos] + s[pos+1:])
			e.checkOtherOrValid(s[:pos] + s[pos:pos+1] + s[pos:])
		}
	}
	for _, s := range []string{"", "-", "--", " ", "T", "0", "2019", "2019-", "2019-08-15", "2019-08-15T", "2019-08-15 15:50:46",
		"2019/08/15T15:50:46Z", "2019-08-15T15.50.46Z", "Aug 15 15:50:46", "1565873446", "-0001-01-01T00:00:00Z",
		"2019-08-15T15:50:46.", "2019-08-15T15:50:46.Z", "2019-08-15T15:50:46.+03:00", "2019-08-15T15:50:60Z",
		"2019-13-15T15:50:46Z", "2019-02-30T15:50:46Z", "2019-08-15T24:00:00Z", "2019-08-15T15:50:46+24:00",
		"2019-08-15T15:50:46+03", "2019-08-15T15:50:46+3:00", "2019-08-15T15:50:46 +03:00", "2019-08-15T15:50:46z",
		"2019-08-15T15:50:46.1234567890Z", "2019-08-15T15:50:46.12345678901234567890Z", "2019-08-15T15:50:46.1e5Z",
		strings.Repeat("9", 19), strings.Repeat("-", 19), strings.Repeat("2019-08-15T15:50:46", 3)} {
		c.Sample(map[string]any{"kind": "other", "input": s})
		e.checkOtherOrValid(s)
	}
	rr := c.Rand("random", 0)
	alphabet := []byte("0123456789-:T.Z+ tz/\\x\x00\x80\xff")
	for i := 0; i < c.N(100000, 3000000); i++ {
		n := rr.Intn(41)
		b := make([]byte, n)
		for k := range b {
			if rr.Intn(8) == 0 {
				b[k] = byte(rr.Intn(256))
			} else {
				b[k] = alphabet[rr.Intn(len(alphabet))]
			}
		}
		// half of them get the separators in place so that deeper code is reached
		if rr.Intn(2) == 0 && n >= 19 {
			b[4], b[7], b[10], b[13], b[16] = '-', '-', 'T', ':', ':'
		}
		e.checkOtherOrValid(string(b))
	}

	// --- several transform instances at once, one per goroutine, as the agent runs them (one per pipeline): in a child process,
	// because what goes wrong between instances is a runtime fatal error, not a panic
	res := c.RunChild(vkit.ChildSpec{Mode: "instances", Tag: "instances", Timeout: 10 * time.Minute})
	if res.Partial != nil {
		c.Merge(*res.Partial)
	}
	if res.Crashed() || res.Partial == nil {
		if res.TimedOut {
			c.Inconclusive("child instances hit the wall-clock watchdog at " + res.LastCase)
		} else {
			st := res.Stderr
			if len(st) > 4000 {
				st = st[:4000]
			}
			c.Violation("crash:instances:"+res.CrashSite(), "parseTime transforms of separate pipelines, each used by one goroutine, killed the process at "+
				res.LastCase+": "+res.CrashSummary(), map[string]any{"case": res.LastCase, "stderr_head": st})
		}
	}
	c.Require("valid_stamps", 1000000)
	c.Require("notshaped_strings", 1000)
	c.Require("instances_stamps", 100000)
	c.Finish()
	_ = os.Stdout
}

func (e *engine) checkOtherOrValid(s string) {
	if _, ok := refParse(s); ok {
		e.checkValid(s)
		return
	}
	e.checkOther(s)
}
