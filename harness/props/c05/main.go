// C05 — arrival order is preserved per connection and key set.
//
// Uses the end-to-end engine (real agent in a child, scripted upstreams, stamped records) with scenarios chosen for
// order: interleaved key sets with batch sizes around the input batch limit, forced spilling, resets, never-ack +
// restart, traffic right after a restart. Oracle over the upstream's logical clock:
//
//	(1) per output and (connection, key set) stream, first arrivals are in stamp order;
//	(2) on one upstream connection no chunk is received while an older chunk of the same pipeline that was seen before and
//	    is not acknowledged has not been received on that connection;
//	(3) chunk ids increase within one upstream connection.
package main

import (
	"bytes"
	"encoding/json"
	"fmt"
	"os"
	"path/filepath"
	"runtime"
	"sort"
	"strconv"
	"strings"
	"time"

	"github.com/relex/gotils/logger"

	"github.com/relex/slog-agent/util/vhook"

	"verifharness/internal/e2e"
	"verifharness/internal/upstream"
	"verifharness/internal/vkit"
)

var families = []string{"steady", "reset-after-k", "neverack-restart", "refuse-then-recover", "restarts-in-a-row", "late-ack",
	"session-renewal", "blackhole-restart", "stop-with-pending-acks", "wrong-id", "two-outputs-one-faulty", "stop-mid-chunk", "stop-while-forwarding", "interrupted-recovery", "interrupted-recovery"}

func buildScenarios(c *vkit.Ctx) []e2e.Scenario {
	var out []e2e.Scenario
	n := c.N(24, 240)
	for i := 0; i < n; i++ {
		r := c.Rand("scenario", i)
		sc := e2e.GenScenario(r, families[i%len(families)], i, e2e.Opt{Kinds: []string{"plain", "plain", "plain", "drop", "esc"}, MaxRecs: 60})
		// order-relevant knobs: small memory window (spill), small chunks, small batches
		if r.Intn(2) == 0 && sc.Family != "stop-while-forwarding" {
			sc.MemWindow = 4
			sc.ChunkBytes = 300
		}
		sc.BatchLogs = []int{5, 6, 8, 13, 20}[r.Intn(5)]
		out = append(out, sc)
	}
	// More runs of the gate script: whether a client that sees both "a chunk is ready" and "the input is closed" takes the chunk
	// is the runtime's coin (select), so one run produces the overlap only every other time.
	for j := 0; j < c.N(9, 30); j++ {
		r := c.Rand("scenario", n+j)
		sc := e2e.GenScenario(r, "stop-while-forwarding", n+j, e2e.Opt{Kinds: []string{"plain", "plain", "plain", "drop", "esc"}, MaxRecs: 60})
		sc.BatchLogs = []int{5, 6, 8, 13, 20}[r.Intn(5)]
		out = append(out, sc)
	}
	// backlog-at-restart: a restart finds thousands of chunk files of one key set, and new records of the same key set arrive at
	// once: every queued chunk is older than anything made after the start, so all of them go first (seeded c05-s6 queued the
	// backlog in the background and let new chunks in between)
	for j := 0; j < c.N(2, 8); j++ {
		out = append(out, backlogScenario(n+100+j))
	}
	return out
}

const backlogFiles = 6000

func backlogScenario(idx int) e2e.Scenario {
	sc := e2e.Scenario{ID: fmt.Sprintf("%04d", idx), Family: "backlog-at-restart", Outputs: 1, Mode: "PackedForward", MemWindow: 8, QueueCap: 4 * backlogFiles,
		ChunkBytes: 300, BatchLogs: 5, MaxPending: 10, Procs: []int{2, 4, 16}[idx%3]}
	one := e2e.ConnSpec{ID: 1}
	for q := 1; q <= 8; q++ {
		one.Recs = append(one.Recs, e2e.Rec{Conn: 1, Seq: q, App: "appA", Sev: 6, Host: "h1", Kind: "plain", Pad: 60})
	}
	fresh := e2e.ConnSpec{ID: 2, WriteSize: 400, GapUs: 1500}
	for q := 1; q <= 60; q++ {
		fresh.Recs = append(fresh.Recs, e2e.Rec{Conn: 2, Seq: q, App: "appA", Sev: 6, Host: "h1", Kind: "plain", Pad: 60})
	}
	sc.Gens = []e2e.GenSpec{
		{Conns: []e2e.ConnSpec{one}, UpScript: [][]upstream.Step{{{Kind: "refuse", DelayMs: 60000}}}},
		{Conns: []e2e.ConnSpec{fresh}, UpScript: [][]upstream.Step{nil}, WaitAcked: true},
	}
	return sc
}

// plantBacklog copies one chunk file of the first generation under backlogFiles older ids (the id is also inside the message,
// same length, replaced) into the queue directory of the attempt that is running.
func plantBacklog(work string, sc e2e.Scenario) int {
	root := filepath.Join(work, "sc-"+sc.ID)
	for _, r := range []string{"retry2", "retry3"} {
		if _, err := os.Stat(filepath.Join(work, r, "sc-"+sc.ID)); err == nil {
			root = filepath.Join(work, r, "sc-"+sc.ID)
		}
	}
	files, _ := filepath.Glob(filepath.Join(root, "q1", "*", "*.ff"))
	if len(files) == 0 {
		return 0
	}
	data, err := os.ReadFile(files[0])
	if err != nil {
		return 0
	}
	dir, origID, n := filepath.Dir(files[0]), filepath.Base(files[0]), 0
	for i := 0; i < backlogFiles; i++ {
		id := fmt.Sprintf("%019d-%08d.ff", 1700000000000000000+int64(i), 0)
		d := bytes.Replace(data, []byte(origID), []byte(id), 1)
		if len(id) == len(origID) && os.WriteFile(filepath.Join(dir, id), d, 0o644) == nil {
			n++
		}
	}
	return n
}

type finding struct{ class, what string }

func lastN(s []string, n int) []string {
	if len(s) > n {
		return s[len(s)-n:]
	}
	return s
}

func Judge(obs *e2e.Obs) (fs []finding, info map[string]int) {
	info = map[string]int{}
	add := func(class, what string) { fs = append(fs, finding{class, what}) }
	sent := map[string]e2e.Rec{}
	for _, r := range obs.Sent {
		sent[r.Stamp()] = r
	}
	// (1) first arrivals per stream
	type skey struct {
		out, stream string
	}
	first := map[string]bool{}
	lastSeq := map[skey]int{}
	lastStamp := map[skey]string{}
	arrivals := map[skey][]string{} // every arrival of the stream (first or repeated), for the witness
	agentLog := ""
	for gi, g := range obs.Gens {
		for i, l := range g.AgentLog {
			if i < 4 {
				if len(l) > 200 {
					l = l[:200]
				}
				agentLog += fmt.Sprintf(" || gen%d: %s", gi, l)
			}
		}
	}
	for _, d := range obs.Up {
		r, ok := sent[d.Stamp]
		if !ok {
			continue // C01 decides phantom records
		}
		k := d.Output + "/" + d.Stamp
		sk0 := skey{d.Output, fmt.Sprintf("conn%d/%s/%d", r.Conn, r.App, r.Sev)}
		arrivals[sk0] = append(arrivals[sk0], fmt.Sprintf("%s@gen%d/conn%d/%s/acked=%v", d.Stamp, d.Gen, d.UpConn, d.ChunkID, d.Acked))
		if first[k] {
			info["duplicate_arrivals"]++
			continue
		}
		first[k] = true
		sk := skey{d.Output, fmt.Sprintf("conn%d/%s/%d", r.Conn, r.App, r.Sev)}
		if r.Seq < lastSeq[sk] {
			add("record-order", fmt.Sprintf("%s stream %s: record %s first arrived after record %s (chunk %s, upstream connection %d)",
				d.Output, sk.stream, d.Stamp, lastStamp[sk], d.ChunkID, d.UpConn)+"; arrivals of the stream so far: "+strings.Join(lastN(arrivals[sk], 14), " ")+agentLog)
		} else {
			lastSeq[sk] = r.Seq
			lastStamp[sk] = d.Stamp
		}
		info["first_arrivals"]++
	}
	info["streams"] = len(lastSeq)
	// (2) and (3) per output and pipeline (= tag)
	type pkey struct{ out, tag string }
	type cstate struct {
		ackClock int64 // 0 = never acknowledged
		seen     bool
	}
	chunks := map[pkey]map[string]*cstate{}
	onConn := map[string]map[string]bool{} // out/conn -> ids received on it
	lastOnConn := map[string]string{}
	count := map[string]int{}
	for _, ch := range obs.Chunks {
		pk := pkey{ch.Output, ch.Tag}
		if chunks[pk] == nil {
			chunks[pk] = map[string]*cstate{}
		}
		ck := fmt.Sprintf("%s/%d", ch.Output, ch.UpConn)
		if onConn[ck] == nil {
			onConn[ck] = map[string]bool{}
		}
		// every older chunk of this pipeline seen before and not acknowledged by now must already be on this connection
		for id, st := range chunks[pk] {
			if id >= ch.ChunkID || !st.seen {
				continue
			}
			if st.ackClock != 0 && st.ackClock < ch.Clock {
				continue
			}
			if !onConn[ck][id] {
				add("skipped-older-chunk", fmt.Sprintf("%s %s: chunk %s received on upstream connection %d while older chunk %s, seen before and not acknowledged, had not been received on that connection",
					ch.Output, ch.Tag, ch.ChunkID, ch.UpConn, id))
			}
		}
		if prev := lastOnConn[ck+"/"+ch.Tag]; prev != "" && ch.ChunkID <= prev {
			add("chunk-id-order", fmt.Sprintf("%s %s: on upstream connection %d chunk %s was received after %s", ch.Output, ch.Tag, ch.UpConn, ch.ChunkID, prev))
		}
		lastOnConn[ck+"/"+ch.Tag] = ch.ChunkID
		onConn[ck][ch.ChunkID] = true
		st := chunks[pk][ch.ChunkID]
		if st == nil {
			st = &cstate{}
			chunks[pk][ch.ChunkID] = st
		}
		st.seen = true
		if ch.Acked && (st.ackClock == 0 || ch.AckClock < st.ackClock) {
			st.ackClock = ch.AckClock
		}
		count[ch.Output+"/"+ch.ChunkID]++
		if count[ch.Output+"/"+ch.ChunkID] == 2 {
			info["retransmitted_chunks"]++
		}
	}
	// (2b) an older chunk that had never been transmitted anywhere when a newer one of the same pipeline was received: chunk ids
	// are assigned by the pipeline's single worker in creation order, so a chunk with a smaller id existed, undelivered, at
	// that moment (it shows up later: retransmitted, or recovered from disk after a restart)
	firstRecv := map[pkey]map[string]int64{}
	for _, ch := range obs.Chunks {
		pk := pkey{ch.Output, ch.Tag}
		if firstRecv[pk] == nil {
			firstRecv[pk] = map[string]int64{}
		}
		if c0, ok := firstRecv[pk][ch.ChunkID]; !ok || ch.Clock < c0 {
			firstRecv[pk][ch.ChunkID] = ch.Clock
		}
	}
	flagged := map[string]bool{}
	for _, ch := range obs.Chunks {
		pk := pkey{ch.Output, ch.Tag}
		for id, c0 := range firstRecv[pk] {
			if id < ch.ChunkID && c0 > ch.Clock && !flagged[ch.Output+"/"+id] {
				flagged[ch.Output+"/"+id] = true
				add("skipped-older-chunk", fmt.Sprintf("%s %s: chunk %s was received (generation %d, upstream connection %d) while the older chunk %s of the same pipeline had not been transmitted at all; it arrived later (clock %d > %d)",
					ch.Output, ch.Tag, ch.ChunkID, ch.Gen, ch.UpConn, id, c0, ch.Clock))
			}
		}
	}
	info["chunks"] = len(obs.Chunks)
	for gi := 1; gi < len(obs.Gens); gi++ {
		if len(obs.Gens[gi-1].DiskFiles) > 0 {
			info["generations_with_recovery"]++
		}
	}
	for _, g := range obs.Gens {
		for _, m := range g.Metrics {
			if strings.HasSuffix(m.Name, "buffer_input_chunks_total") && m.Labels["state"] == "persistent" {
				info["persistent_inputs"] += int(m.Value)
			}
		}
	}
	return fs, info
}

func childMain(c *vkit.Ctx) {
	idx, _ := strconv.Atoi(c.Arg("idx"))
	var sc e2e.Scenario
	if only := c.Arg("only"); only != "" {
		_ = json.Unmarshal([]byte(only), &sc)
	} else {
		sc = buildScenarios(c)[idx]
	}
	if sc.Procs > 0 {
		runtime.GOMAXPROCS(sc.Procs)
	}
	c.LogCase(sc.ID + ":" + sc.Family)
	if sc.Family == "interrupted-recovery" {
		// let the upstream's reset arrive before the recovery session sends: the re-send then fails deterministically
		vhook.Hook = func(point string) {
			if point == "worker.session.beforeStore" {
				time.Sleep(3 * time.Millisecond)
			}
		}
	}
	var overlapped func() bool
	var sentAfterStop func() int64
	gateOff := func() {}
	if sc.Family == "stop-while-forwarding" {
		vhook.Hook, overlapped, sentAfterStop, gateOff = e2e.StopOverlapGate(1500*time.Microsecond, 3*time.Millisecond, 300*time.Millisecond)
	}
	plantedFiles := 0
	obs, err, attempts, expired := e2e.RunStable(sc, c.WorkDir(), e2e.Hooks{AfterStop: func(gen int) { gateOff() }, BeforeStart: func(gen int) {
		if sc.Family == "backlog-at-restart" && gen == 1 {
			plantedFiles = plantBacklog(c.WorkDir(), sc)
		}
	}}, func(o *e2e.Obs) bool { fs, _ := Judge(o); return len(fs) > 0 })
	c.Eval(1)
	if attempts > 1 {
		c.Event("attempts_set_aside_after_safety_timeout_expiry", attempts-1)
		c.Sample(map[string]any{"scenario": sc.ID, "family": sc.Family, "set_aside": expired})
	}
	if err != nil {
		c.Inconclusive("scenario " + sc.ID + ": " + err.Error())
		return
	}
	fs, info := Judge(obs)
	if os.Getenv("VERIF_DEBUG") != "" {
		for _, ch := range obs.Chunks {
			fmt.Fprintf(os.Stderr, "DEBUG chunk gen%d conn%d %s acked=%v n=%d clock=%d\n", ch.Gen, ch.UpConn, ch.ChunkID, ch.Acked, ch.N, ch.Clock)
		}
		for gi, g := range obs.Gens {
			fmt.Fprintf(os.Stderr, "DEBUG gen%d files=%v log=%v\n", gi, g.DiskFiles, g.AgentLog)
		}
	}
	for k, v := range info {
		c.Event(k, v)
	}
	c.Event("family:"+sc.Family, 1)
	if overlapped != nil {
		c.Event("stop_while_forwarding_runs", 1)
		c.Event("chunks_forwarded_after_the_shutdown_save_began", int(sentAfterStop()))
		if overlapped() {
			c.Event("shutdown_save_overlapped_forwarding", 1)
		}
		c.Nontrivial("stop-while-forwarding:" + sc.ID)
	}
	if sc.Family == "backlog-at-restart" {
		c.Event("backlog_files_planted", plantedFiles)
		newBefore := 0 // chunks made after the restart that the upstream received before the last planted one
		lastPlanted := int64(0)
		for _, ch := range obs.Chunks {
			if ch.ChunkID < "1710000000000000000" && ch.Clock > lastPlanted {
				lastPlanted = ch.Clock
			}
		}
		for _, ch := range obs.Chunks {
			if ch.Gen == 1 && ch.ChunkID > "1710000000000000000" && ch.Clock < lastPlanted {
				newBefore++
			}
		}
		c.Event("backlog_runs", 1)
		c.Event("backlog_new_chunks_received_before_the_backlog_was_through", newBefore)
	}
	if info["retransmitted_chunks"] > 0 || info["generations_with_recovery"] > 0 || info["persistent_inputs"] > 0 {
		b, _ := json.Marshal(sc)
		c.Nontrivial(sc.Family + ":" + vkit.Hash(string(b)))
	}
	if idx%6 == 0 {
		c.Sample(map[string]any{"family": sc.Family, "outputs": sc.Outputs, "mem_window": sc.MemWindow, "chunk_bytes": sc.ChunkBytes, "batch": sc.BatchLogs,
			"generations": len(sc.Gens), "info": info})
	}
	sort.Slice(fs, func(i, j int) bool { return fs[i].class < fs[j].class })
	for _, f := range fs {
		c.Violation(f.class+":"+sc.Family, f.what, map[string]any{"scenario": sc, "info": info, "upstream_events": obs.Gens[len(obs.Gens)-1].UpEvents})
	}
}

var anchors = []string{"orchestrate/obykeyset/orchestrator.go", "orchestrate/obykeyset/channelinputbuffer.go", "base/bsupport/logprocessingworker.go",
	"output/shared/messagepacker.go", "output/shared/chunkidgen.go", "buffer/hybridbuffer/bufferer.go", "buffer/hybridbuffer/chunkoperator.go",
	"output/baseoutput/clientsession.go"}

func main() {
	logger.SetLogLevel(logger.FatalLevel)
	c := vkit.Start("C05", "exploration")
	if c.Child != "" {
		childMain(c)
		c.Finish()
	}
	c.Rule("scenarios of the end-to-end engine chosen for order (families: " + strings.Join(families[:len(families)-1], ", ") + " (twice as often)" + "; batch sizes 5-20, memory window 4 with 300-byte chunks in half of them); " +
		"non-trivial = a chunk was retransmitted, recovered after a restart or spilled to disk; distinct = scenario hash")
	c.Assume("chunk ids embed wall-clock nanoseconds: a clock stepping backwards between restarts would break recovery order and is not provoked")
	c.Assume("duplicates anywhere and any interleaving between different streams are allowed; only first arrivals are ordered")
	scs := buildScenarios(c)
	if len(os.Args) > 2 && os.Args[1] == "--replay" {
		b, _ := os.ReadFile(os.Args[2])
		var rep struct {
			Witness struct {
				Scenario e2e.Scenario `json:"scenario"`
			} `json:"witness"`
		}
		if json.Unmarshal(b, &rep) == nil {
			sj, _ := json.Marshal(rep.Witness.Scenario)
			for i := 0; i < 20; i++ {
				r := c.RunChild(vkit.ChildSpec{Mode: "run", Tag: "replay", Timeout: 10 * time.Minute, Args: map[string]string{"only": string(sj)}})
				if r.Partial != nil {
					c.Merge(*r.Partial)
					if len(r.Partial.Violations) > 0 {
						break
					}
				}
			}
		}
		c.Finish()
	}
	var specs []vkit.ChildSpec
	for i := range scs {
		specs = append(specs, vkit.ChildSpec{Mode: "run", Tag: fmt.Sprintf("s%04d", i), Timeout: 6 * time.Minute, Args: map[string]string{"idx": strconv.Itoa(i)}})
	}
	for _, r := range c.RunChildren(specs, 8) {
		if r.Partial != nil {
			c.Merge(*r.Partial)
		}
		if r.Crashed() || r.Partial == nil {
			if r.TimedOut {
				c.Inconclusive("scenario " + r.LastCase + " hit the wall-clock watchdog")
				continue
			}
			c.Violation("crash:"+r.CrashSite(), "agent process died in scenario "+r.LastCase+": "+r.CrashSummary(), map[string]any{"scenario": r.LastCase})
		}
	}
	c.JudgeRaces(anchors)
	c.Require("first_arrivals", 300)
	c.Require("retransmitted_chunks", 3)
	c.Require("generations_with_recovery", 2)
	c.Require("persistent_inputs", 3)
	c.Require("stop_while_forwarding_runs", 8)
	c.Require("backlog_files_planted", backlogFiles)
	c.Finish()
}
