// C04 — spilled chunks survive I/O faults and crashes intact or not at all.
//
// A victim process drives the real hybrid buffer (consumer stalled, chunks spill) under one injected fault — a file-size
// limit that stops the write at byte k, a self-kill at a named point of util.WriteFileAt, both, an injected ENOSPC/EIO
// (strace, thorough) or pre-planted damaged files — and is then finished off. A recovery process starts on the same
// directory with a strict consumer. Every received chunk is compared byte for byte with what was produced.
package main

import (
	"bytes"
	"crypto/sha256"
	"encoding/hex"
	"encoding/json"
	"fmt"
	"github.com/relex/slog-agent/output/datadog"
	"github.com/relex/slog-agent/output/fluentdforward"
	"os"
	"os/exec"
	"os/signal"
	"path/filepath"
	"sort"
	"strconv"
	"strings"
	"sync"
	"syscall"
	"time"

	"github.com/c2h5oh/datasize"
	"github.com/relex/gotils/logger"
	"github.com/relex/gotils/promexporter/promreg"
	"github.com/relex/slog-agent/base"
	"github.com/relex/slog-agent/buffer/hybridbuffer"
	"github.com/relex/slog-agent/defs"
	"github.com/relex/slog-agent/util/vhook"

	"verifharness/internal/vkit"
)

type Fault struct {
	Kind   string `json:"kind"`   // none | fsize | kill | fsize+kill | shutdown-fsize | shutdown-kill | strace | planted
	K      int    `json:"k"`      // byte offset at which the write stops (fsize)
	Point  string `json:"point"`  // kill point
	Hit    int    `json:"hit"`    // n-th hit of the point after arming
	Errno  string `json:"errno"`  // strace: ENOSPC | EIO
	Plant  string `json:"plant"`  // planted: zero | truncated | garbage | unmatched | directory
	Pos    int    `json:"pos"`    // queue position of the affected chunk among the spilled ones (0-based)
	Size   int    `json:"size"`   // size of the affected chunk
	NSpill int    `json:"nspill"` // how many chunks are spilled in total
	Out    string `json:"out,omitempty"` // "" = the Forward output's chunk names and matcher (.ff), "dd" = the Datadog output's (.dd)
}

// sfx is the chunk-name suffix of the output type the pair runs under.
func (f Fault) sfx() string {
	if f.Out == "dd" {
		return ".dd"
	}
	return ".ff"
}

// matcher is the product's own test for "this file name is a chunk of that output" (not a copy of it: a change to the matcher
// is a change to what recovery picks up; seeded c04-s3 for the Forward output, c04-s7 for the Datadog output)
func (f Fault) matcher() func(string) bool {
	if f.Out == "dd" {
		return (&datadog.Config{}).MatchChunkID
	}
	return (&fluentdforward.Config{}).MatchChunkID
}

func (f Fault) chunkID(i int) string { return fmt.Sprintf("%019d-%08d%s", 1700000000000000000+int64(i), 0, f.sfx()) }

func (f Fault) id() string {
	return fmt.Sprintf("%s/k%d/%s#%d/%s%s/pos%d/size%d%s", f.Kind, f.K, f.Point, f.Hit, f.Errno, f.Plant, f.Pos, f.Size, f.Out)
}

const warm = 3 // chunks that stay in memory (window 4: spilling starts when 2 are queued for output)


func payload(id string, size int) []byte {
	b := make([]byte, size)
	h := sha256.Sum256([]byte(id))
	for i := range b {
		b[i] = h[i%32] ^ byte(i>>5) ^ byte(i*7)
	}
	return b
}

func sizeOf(f Fault, i int) int {
	// chunk i (1-based over all accepted): warm chunks are 33 bytes, spilled ones 40+i, the target has f.Size
	if i <= warm {
		return 33
	}
	if i-warm-1 == f.Pos {
		return f.Size
	}
	return 40 + i
}


func setDefs() {
	defs.BufferMaxNumChunksInMemory = 4
	defs.BufferMaxNumChunksInQueue = 64
	defs.IntermediateChannelTimeout = 300 * time.Millisecond
	defs.ForwarderBatchAckTimeout = 200 * time.Millisecond
	defs.BufferShutDownTimeout = defs.ForwarderBatchAckTimeout + 2*defs.IntermediateChannelTimeout
}

type victimReport struct {
	Accepted []string           `json:"accepted"`
	Done     bool               `json:"done"`
	Metrics  map[string]float64 `json:"metrics"`
	Hits     map[string]int     `json:"hits"`
}

func setFsize(k int) {
	var lim syscall.Rlimit
	_ = syscall.Getrlimit(syscall.RLIMIT_FSIZE, &lim)
	if k < 0 {
		lim.Cur = lim.Max
	} else {
		lim.Cur = uint64(k)
	}
	_ = syscall.Setrlimit(syscall.RLIMIT_FSIZE, &lim)
}

// ---------- victim ----------

func victim(c *vkit.Ctx) {
	var f Fault
	_ = json.Unmarshal([]byte(c.Arg("fault")), &f)
	dir := c.Arg("dir")
	reportPath := c.Arg("report")
	setDefs()
	signal.Ignore(syscall.SIGXFSZ) // a write beyond RLIMIT_FSIZE then fails with EFBIG instead of killing the process
	rep := victimReport{Hits: map[string]int{}}
	save := func() {
		b, _ := json.Marshal(rep)
		_ = os.WriteFile(reportPath+".tmp", b, 0o644)
		_ = os.Rename(reportPath+".tmp", reportPath)
	}
	var mu sync.Mutex
	armed := false
	hits := 0
	vhook.Hook = func(point string) {
		if !strings.HasPrefix(point, "files.write.") {
			return
		}
		mu.Lock()
		rep.Hits[point]++
		die := false
		if armed && point == f.Point {
			hits++
			if hits == f.Hit {
				die = true
			}
		}
		mu.Unlock()
		if die {
			_ = syscall.Kill(os.Getpid(), syscall.SIGKILL)
			time.Sleep(time.Hour)
		}
	}
	arm := func(on bool) {
		mu.Lock()
		armed = on && strings.Contains(f.Kind, "kill")
		mu.Unlock()
		if strings.Contains(f.Kind, "fsize") {
			if on {
				setFsize(f.K)
			} else {
				setFsize(-1)
			}
		}
	}
	mf := promreg.NewMetricFactory("c04_", nil, nil)
	cfg := hybridbuffer.Config{RootPath: dir, MaxBufSize: datasize.ByteSize(1 << 40)}
	buf := cfg.NewBufferer(logger.Root(), "", f.matcher(), mf, false)
	buf.Start()
	args := buf.RegisterNewConsumer()
	go func() { // a stalled consumer: takes nothing, leaves when the input is closed
		<-args.InputClosed.Channel()
		args.OnFinished()
	}()
	n := 0
	accept := func() {
		n++
		id := f.chunkID(n)
		buf.Accept(base.LogChunk{ID: id, Data: payload(id, sizeOf(f, n))})
		rep.Accepted = append(rep.Accepted, id)
		save()
	}
	for i := 0; i < warm; i++ {
		accept()
	}
	// wait until the feeder has moved the warm chunks into the output window: from now on Accept spills synchronously
	for dl := time.Now().Add(5 * time.Second); time.Now().Before(dl); {
		if vkit.Sum(vkit.Gather(mf), "queued_chunks", map[string]string{"state": "transient"}) == 0 {
			break
		}
		time.Sleep(time.Millisecond)
	}
	time.Sleep(2 * time.Millisecond)
	for i := 0; i < f.NSpill; i++ {
		target := i == f.Pos && !strings.HasPrefix(f.Kind, "shutdown") && f.Kind != "planted" && f.Kind != "none"
		if target {
			arm(true)
		}
		accept()
		if target {
			arm(false)
		}
	}
	if strings.HasPrefix(f.Kind, "shutdown") {
		arm(true) // the fault hits the files written while everything still in memory is saved
	}
	buf.Destroy()
	buf.Stopped().Wait(10 * time.Second)
	arm(false)
	rep.Done = true
	rep.Metrics = map[string]float64{}
	for _, m := range vkit.Gather(mf) {
		rep.Metrics[m.Key()] = m.Value
	}
	save()
}

// ---------- recovery ----------

type recoveryReport struct {
	Received map[string]string  `json:"received"` // id -> hex(sha256(data)) + ":" + len
	Order    []string           `json:"order"`
	Done     bool               `json:"done"`
	Metrics  map[string]float64 `json:"metrics"`
}

func digest(b []byte) string {
	h := sha256.Sum256(b)
	return hex.EncodeToString(h[:]) + ":" + strconv.Itoa(len(b))
}

func recovery(c *vkit.Ctx) {
	var f Fault
	_ = json.Unmarshal([]byte(c.Arg("fault")), &f)
	dir := c.Arg("dir")
	reportPath := c.Arg("report")
	setDefs()
	rep := recoveryReport{Received: map[string]string{}}
	var mu sync.Mutex
	save := func() {
		mu.Lock()
		b, _ := json.Marshal(rep)
		mu.Unlock()
		_ = os.WriteFile(reportPath+".tmp", b, 0o644)
		_ = os.Rename(reportPath+".tmp", reportPath)
	}
	mf := promreg.NewMetricFactory("c04_", nil, nil)
	cfg := hybridbuffer.Config{RootPath: dir, MaxBufSize: datasize.ByteSize(1 << 40)}
	buf := cfg.NewBufferer(logger.Root(), "", f.matcher(), mf, false)
	buf.Start()
	args := buf.RegisterNewConsumer()
	fin := make(chan struct{})
	go func() { // the strict upstream: takes every chunk, records its bytes, confirms
		defer close(fin)
		defer args.OnFinished()
		for {
			select {
			case ch, ok := <-args.InputChannel:
				if !ok {
					return
				}
				mu.Lock()
				rep.Received[ch.ID] = digest(ch.Data)
				rep.Order = append(rep.Order, ch.ID)
				mu.Unlock()
				args.OnChunkConsumed(ch)
			case <-args.InputClosed.Channel():
				return
			}
		}
	}()
	// everything recovered is pending; wait until nothing is (bounded)
	for dl := time.Now().Add(8 * time.Second); time.Now().Before(dl); {
		if vkit.Sum(vkit.Gather(mf), "pending_chunks", nil) == 0 {
			break
		}
		time.Sleep(time.Millisecond)
	}
	buf.Destroy()
	buf.Stopped().Wait(10 * time.Second)
	<-fin
	rep.Done = true
	rep.Metrics = map[string]float64{}
	for _, m := range vkit.Gather(mf) {
		rep.Metrics[m.Key()] = m.Value
	}
	save()
}

// ---------- parent ----------

func listFiles(dir string) map[string][]byte {
	out := map[string][]byte{}
	ents, _ := os.ReadDir(dir)
	for _, e := range ents {
		if e.IsDir() {
			out[e.Name()] = nil
			continue
		}
		b, err := os.ReadFile(filepath.Join(dir, e.Name()))
		if err == nil {
			out[e.Name()] = b
		}
	}
	return out
}

func sumSuffix(m map[string]float64, name string) float64 {
	t := 0.0
	for k, v := range m {
		if strings.HasPrefix(k, "c04_"+name+"{") {
			t += v
		}
	}
	return t
}

func plant(dir string, f Fault, total int) (planted string, intactDisplaced bool) {
	// the planted file takes queue position f.Pos among the spilled chunk files: it gets an id that sorts there
	// (ids of spilled chunks are warm+1 ... warm+NSpill; use a fractional sequence number)
	base := 1700000000000000000 + int64(warm+1+f.Pos)
	name := fmt.Sprintf("%019d-%08d%s", base-1, 5, f.sfx()) // sorts right before spilled chunk f.Pos
	full := payload(name, 64)
	switch f.Plant {
	case "zero":
		_ = os.WriteFile(filepath.Join(dir, name), nil, 0o644)
	case "truncated":
		_ = os.WriteFile(filepath.Join(dir, name), full[:17], 0o644)
	case "garbage":
		_ = os.WriteFile(filepath.Join(dir, name), []byte("\x00\xff not a chunk \x93"), 0o644)
	case "unmatched":
		name = strings.TrimSuffix(name, f.sfx()) + ".tmp"
		_ = os.WriteFile(filepath.Join(dir, name), full, 0o644)
	case "directory":
		_ = os.Mkdir(filepath.Join(dir, name), 0o755)
	case "unreadable":
		_ = os.WriteFile(filepath.Join(dir, name), full, 0o000)
	}
	return name, false
}

type pairResult struct {
	findings []struct{ class, what string }
	fired    bool
	sig      string
	detail   map[string]any
}

func runPair(c *vkit.Ctx, f Fault, idx int) pairResult {
	res := pairResult{detail: map[string]any{"fault": f}}
	add := func(class, what string) {
		res.findings = append(res.findings, struct{ class, what string }{class, what})
	}
	dir := filepath.Join(c.WorkDir(), fmt.Sprintf("q-%05d", idx))
	_ = os.MkdirAll(dir, 0o755)
	defer os.RemoveAll(dir)
	vrep := filepath.Join(c.WorkDir(), fmt.Sprintf("victim-%05d.json", idx))
	rrep := filepath.Join(c.WorkDir(), fmt.Sprintf("recovery-%05d.json", idx))
	defer os.Remove(vrep)
	defer os.Remove(rrep)
	fj, _ := json.Marshal(f)
	spec := vkit.ChildSpec{Mode: "victim", Tag: fmt.Sprintf("v%05d", idx), Timeout: 60 * time.Second,
		Args: map[string]string{"fault": string(fj), "dir": dir, "report": vrep}}
	if f.Kind == "strace" {
		target := filepath.Join(dir, f.chunkID(warm+1+f.Pos))
		spec.Wrap = []string{"strace", "-f", "-qq", "-o", "/dev/null", "-e", "trace=write,pwrite64,writev",
			"-e", "inject=write,pwrite64,writev:error=" + f.Errno + ":when=1+", "-P", target, "-P", target + ".tmp"}
	}
	vr := c.RunChild(spec)
	var vrp victimReport
	if b, err := os.ReadFile(vrep); err == nil {
		_ = json.Unmarshal(b, &vrp)
	}
	killed := vr.Signal == "killed"
	if strings.Contains(f.Kind, "kill") {
		if killed {
			res.fired = true
		}
	} else if !vrp.Done {
		if vr.TimedOut {
			add("inconclusive", "victim hit the watchdog")
		} else {
			add("victim-crash:"+vr.CrashSite(), "victim process died under an I/O fault: "+vr.CrashSummary())
		}
		res.detail["victim_stderr"] = tail(vr.Stderr, 3000)
		return res
	}
	total := warm + f.NSpill
	produced := map[string][]byte{}
	for i := 1; i <= total; i++ {
		produced[f.chunkID(i)] = payload(f.chunkID(i), sizeOf(f, i))
	}
	plantedName := ""
	if f.Kind == "planted" {
		plantedName, _ = plant(dir, f, total)
		res.fired = true
	}
	before := listFiles(dir)
	if f.Kind == "fsize" || f.Kind == "shutdown-fsize" || f.Kind == "strace" || f.Kind == "fsize+kill" {
		if sumSuffix(vrp.Metrics, "io_errors_total") > 0 || sumSuffix(vrp.Metrics, "dropped_chunks_total") > 0 || killed {
			res.fired = true
		}
		// a short write that the code did not notice leaves a short file without any error: that also means the fault fired
		for id, b := range before {
			if want, ok := produced[id]; ok && b != nil && len(b) < len(want) {
				res.fired = true
			}
		}
		if f.K >= f.Size && f.Kind != "strace" && !strings.HasPrefix(f.Kind, "shutdown") {
			res.fired = true // limit at or beyond the chunk size: the boundary case in which nothing may go wrong
		}
	}
	intact := []string{}
	for id, b := range before {
		if want, ok := produced[id]; ok && b != nil && bytes.Equal(b, want) {
			intact = append(intact, id)
		}
	}
	sort.Strings(intact)
	// recovery
	rr := c.RunChild(vkit.ChildSpec{Mode: "recovery", Tag: fmt.Sprintf("r%05d", idx), Timeout: 60 * time.Second,
		Args: map[string]string{"dir": dir, "report": rrep, "fault": string(fj)}})
	var rrp recoveryReport
	if b, err := os.ReadFile(rrep); err == nil {
		_ = json.Unmarshal(b, &rrp)
	}
	if !rrp.Done {
		if rr.TimedOut {
			st := vkit.StuckInAgent(rr.Stderr)
			if len(st) > 0 {
				add("recovery-stuck", "recovery did not finish; parked in "+strings.Join(st, ", "))
			} else {
				add("inconclusive", "recovery hit the watchdog")
			}
		} else {
			add("recovery-crash:"+rr.CrashSite(), "recovery process died on the queue left by the victim: "+rr.CrashSummary())
		}
		res.detail["recovery_stderr"] = tail(rr.Stderr, 3000)
		return res
	}
	// (1) nothing altered is ever forwarded
	for id, dg := range rrp.Received {
		want, ok := produced[id]
		if !ok {
			if id == plantedName {
				// a planted file with a valid name is indistinguishable from a chunk for the buffer - except an empty one,
				// which the buffer treats as corrupt: it must be removed and counted, not forwarded
				if strings.HasSuffix(dg, ":0") {
					add("forwarded-empty", fmt.Sprintf("the zero-length file %s found at startup was forwarded as a chunk (fault %s)", id, f.id()))
				}
				continue
			}
			add("forwarded-unknown", fmt.Sprintf("recovery forwarded %s which was never produced", id))
			continue
		}
		if dg != digest(want) {
			n := strings.SplitN(dg, ":", 2)[1]
			add("forwarded-altered", fmt.Sprintf("chunk %s forwarded with %s bytes that differ from the %d produced (fault %s)", id, n, len(want), f.id()))
		}
	}
	// (2) a damaged file never blocks the intact ones
	for _, id := range intact {
		if _, ok := rrp.Received[id]; !ok {
			add("intact-not-recovered", fmt.Sprintf("intact chunk file %s was on disk before the restart but was not forwarded (fault %s)", id, f.id()))
		}
	}
	// (3) conservation for victims that were not killed: forwarded, or counted as dropped somewhere
	if vrp.Done && f.Kind != "planted" {
		missing := 0
		for id := range produced {
			if _, ok := rrp.Received[id]; !ok {
				missing++
			}
		}
		dropped := int(sumSuffix(vrp.Metrics, "dropped_chunks_total") + sumSuffix(rrp.Metrics, "dropped_chunks_total"))
		if missing > dropped {
			add("lost-uncounted", fmt.Sprintf("%d chunks were never forwarded but only %d were counted as dropped (fault %s)", missing, dropped, f.id()))
		}
	}
	res.sig = fmt.Sprintf("recv%d/intact%d/files%d", len(rrp.Received), len(intact), len(before))
	res.detail["files_before_recovery"] = func() map[string]int {
		m := map[string]int{}
		for k, v := range before {
			m[k] = len(v)
		}
		return m
	}()
	res.detail["received"] = rrp.Received
	return res
}

func buildFaults(c *vkit.Ctx) []Fault {
	var fs []Fault
	sizes := []int{20, 257, 9000}
	positions := []int{0, 2, 4}
	points := []string{"files.write.afterOpen", "files.write.afterWrite", "files.write.afterClose", "files.write.afterRename"}
	nspill := 5
	if !c.Quick() {
		sizes = []int{1, 20, 257, 4096, 9000, 70000}
	}
	offsets := func(n int) []int {
		if c.Quick() {
			return uniq([]int{0, 1, n / 2, n - 1, n, n + 1})
		}
		o := []int{0, 1, n - 1, n, n + 1}
		for i := 1; i < 64; i++ {
			o = append(o, n*i/64)
		}
		return uniq(o)
	}
	fs = append(fs, Fault{Kind: "none", NSpill: nspill, Pos: 0, Size: 50})
	for si, n := range sizes {
		for _, k := range offsets(n) {
			for pi, pos := range positions {
				if c.Quick() && pi != (si+k)%3 {
					continue
				}
				fs = append(fs, Fault{Kind: "fsize", K: k, Pos: pos, Size: n, NSpill: nspill})
				fs = append(fs, Fault{Kind: "fsize+kill", K: k, Point: "files.write.afterWrite", Hit: 1, Pos: pos, Size: n, NSpill: nspill})
			}
		}
		for _, pt := range points {
			for pi, pos := range positions {
				if c.Quick() && pi != si%3 {
					continue
				}
				fs = append(fs, Fault{Kind: "kill", Point: pt, Hit: 1, Pos: pos, Size: n, NSpill: nspill})
			}
		}
		// faults while everything in memory is saved at shutdown
		for _, k := range []int{0, 1, 16, 33} {
			fs = append(fs, Fault{Kind: "shutdown-fsize", K: k, Pos: 0, Size: n, NSpill: nspill})
		}
		for _, pt := range points {
			fs = append(fs, Fault{Kind: "shutdown-kill", Point: pt, Hit: 1 + si%2, Pos: 0, Size: n, NSpill: nspill})
		}
	}
	for _, pl := range []string{"zero", "truncated", "garbage", "unmatched", "directory", "unreadable"} {
		for _, pos := range positions {
			fs = append(fs, Fault{Kind: "planted", Plant: pl, Pos: pos, Size: 50, NSpill: nspill})
		}
	}
	// the same faults under the Datadog output's chunk names and matcher: every kill / planted / shutdown case, and the
	// short-write cases of one size
	for _, f := range append([]Fault(nil), fs...) {
		if f.Kind == "kill" || f.Kind == "shutdown-kill" || f.Kind == "planted" || f.Kind == "none" || ((f.Kind == "fsize+kill" || f.Kind == "fsize") && f.Size == 257) {
			f.Out = "dd"
			fs = append(fs, f)
		}
	}
	if !c.Quick() && haveStrace() {
		for _, en := range []string{"ENOSPC", "EIO"} {
			for _, n := range []int{20, 9000} {
				for _, pos := range positions {
					fs = append(fs, Fault{Kind: "strace", Errno: en, Pos: pos, Size: n, NSpill: nspill})
				}
			}
		}
	}
	return fs
}

func haveStrace() bool {
	_, err := exec.LookPath("strace")
	return err == nil
}

func uniq(in []int) []int {
	seen := map[int]bool{}
	var out []int
	for _, x := range in {
		if x >= 0 && !seen[x] {
			seen[x] = true
			out = append(out, x)
		}
	}
	sort.Ints(out)
	return out
}

func tail(s string, n int) string {
	if len(s) > n {
		return s[len(s)-n:]
	}
	return s
}

func main() {
	logger.SetLogLevel(logger.FatalLevel)
	c := vkit.Start("C04", "fault_enumeration")
	switch c.Child {
	case "victim":
		victim(c)
		os.Exit(0)
	case "recovery":
		recovery(c)
		os.Exit(0)
	}
	c.Rule("fault product = chunk sizes x stop offsets k (RLIMIT_FSIZE: short write, then EFBIG) x {alone, + kill after the write} x queue position, " +
		"kill at each files.write.* point x size x position, the same during the shutdown save, planted damaged files (zero, truncated, garbage, unmatched name, directory, unreadable) x position, " +
		"and in thorough ENOSPC/EIO injected with strace; non-trivial = the fault actually fired (victim killed at the point, error/drop counted, short file seen, or planted file present); " +
		"distinct = (kind, offset, point, position, size)")
	c.Assume("process crash only: page-cache loss / power failure is not modelled (the property makes no fsync claim)")
	c.Assume("a kill inside one write system call is represented by short write + kill after it")
	c.Assume("a planted file with a valid chunk name is indistinguishable from a chunk for the buffer: only 'does not block the others' is demanded for it")
	faults := buildFaults(c)
	if len(os.Args) > 2 && os.Args[1] == "--replay" {
		b, _ := os.ReadFile(os.Args[2])
		var rep struct {
			Witness struct {
				Fault Fault `json:"fault"`
			} `json:"witness"`
		}
		if json.Unmarshal(b, &rep) == nil {
			faults = []Fault{rep.Witness.Fault}
		}
	}
	var wg sync.WaitGroup
	sem := make(chan struct{}, 12)
	for i, f := range faults {
		wg.Add(1)
		sem <- struct{}{}
		go func(i int, f Fault) {
			defer wg.Done()
			defer func() { <-sem }()
			r := runPair(c, f, i)
			c.Eval(1)
			c.Event("pairs:"+f.Kind, 1)
			if r.fired {
				c.Nontrivial(f.id())
				c.Event("fault_fired:"+f.Kind, 1)
			} else if f.Kind != "none" {
				c.Event("fault_not_fired:"+f.Kind, 1)
			}
			c.Distinct("outcomes", f.Kind+":"+r.sig)
			if i%37 == 5 {
				c.Sample(map[string]any{"fault": f, "outcome": r.sig, "fired": r.fired})
			}
			for _, fd := range r.findings {
				if fd.class == "inconclusive" {
					c.Inconclusive(f.id() + ": " + fd.what)
					continue
				}
				c.Violation(fd.class, fd.what, r.detail)
			}
		}(i, f)
	}
	wg.Wait()
	c.Exhaustive(fmt.Sprintf("the listed fault product (%d victim/recovery pairs)", len(faults)))
	c.Require("fault_fired:fsize", 5)
	c.Require("fault_fired:kill", 5)
	c.Require("fault_fired:fsize+kill", 5)
	c.Require("fault_fired:planted", 10)
	c.Finish()
}
