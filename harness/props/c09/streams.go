package main

import (
	"fmt"
	"math/rand"
	"strconv"

	"verifharness/internal/vkit"
)

// ---- enumerated: PRI -------------------------------------------------------------------------------------------

func priJob(mapID int, composite bool, idx int) job {
	cfg := &envCfg{mapID: mapID, composite: composite, perm: int64(idx) * 7919}
	return job{stream: "pri", index: idx, cfg: cfg, run: func(j *jobCtx) {
		nilTok := [6][]byte{[]byte("-"), []byte("-"), []byte("-"), []byte("-"), []byte("-"), []byte("-")}
		fullTok := [6][]byte{[]byte("2019-08-15T15:50:46.866915+03:00"), []byte("host.example.com"), []byte("my-app"), []byte("123"),
			[]byte("fn"), []byte(`[origin@1]`)}
		for pri := 0; pri <= 999; pri++ {
			sig := "pri" + strconv.Itoa(pri) + "m" + strconv.Itoa(mapID)
			if pri > 191 {
				sig = "prioor" + strconv.Itoa(pri/100)
			}
			p := strconv.Itoa(pri)
			j.emit(buildLine(p, &nilTok, []byte("message body of the line"), true), sig)
			j.emit(buildLine(p, &fullTok, []byte("Something happened: é€ done"), true), sig)
		}
		for _, p := range oddPris {
			j.emit(buildLine(p, &fullTok, []byte("Something happened"), true), "priodd")
		}
		for _, h := range oddHeads {
			line := append([]byte(h), " 2019-08-15T15:50:46Z host app 1 fn - a message text"...)
			j.emit(line, "head")
			// "< " + 30 bytes and friends: minimal length
			short := append([]byte(h), ' ')
			for len(short) < 32 {
				short = append(short, 'x')
			}
			j.emit(short, "head32")
		}
	}}
}

// ---- enumerated: truncation ------------------------------------------------------------------------------------

func cutJob(limit int, di int, idx int) job {
	return job{stream: "cut", index: idx, run: func(j *jobCtx) {
		d := cutDeltas[di]
		recLimit := limit + 256
		for s := 1; s <= 4; s++ {
			for o := 0; o <= s; o++ {
				for fill := 0; fill < 6; fill++ {
					for after := 0; after < 2; after++ {
						msg, ok := buildCutMsg(limit, cutSpec{d: d, s: s, o: o, fill: fill, after: after}, j.rng)
						if !ok {
							continue
						}
						for hc := 0; hc < nHeaderClasses; hc++ {
							H := headerLenFor(hc, len(msg), recLimit)
							pri := j.rng.Intn(192)
							tok, ok := headerTokens(j.rng, pri, H)
							if !ok {
								continue
							}
							sig := fmt.Sprintf("cut:d%+d:s%do%d:f%d:a%d:h%d", d, s, o, fill, after, hc)
							j.emit(buildLine(strconv.Itoa(pri), &tok, msg, true), sig)
						}
					}
				}
			}
		}
	}}
}

// ---- sampled: truncation with random material ------------------------------------------------------------------

func randHeaderLen(r *rand.Rand) int {
	switch r.Intn(4) {
	case 0:
		return 250 + r.Intn(13)
	case 1:
		return 263 + r.Intn(440)
	}
	return 18 + r.Intn(70)
}

func cutRandJob(limit, n, idx int) job {
	return job{stream: "cutrand", index: idx, run: func(j *jobCtx) {
		r := j.rng
		recLimit := limit + 256
		for i := 0; i < n; i++ {
			var mlen int
			switch k := r.Intn(10); {
			case k < 6:
				mlen = limit - 8 + r.Intn(17)
			case k < 8:
				mlen = limit + 9 + r.Intn(600)
			case k < 9:
				mlen = r.Intn(limit)
			default:
				mlen = 2*limit + r.Intn(limit)
			}
			if mlen < 0 {
				mlen = 0
			}
			msg := randMessage(r, mlen, r.Intn(4), limit)
			H := randHeaderLen(r)
			if r.Intn(6) == 0 { // record length right at the record limit or at the pooling threshold
				t := recLimit
				if r.Intn(2) == 0 {
					t = 1024
				}
				H = t - 2 + r.Intn(5) - len(msg)
			}
			pri := r.Intn(192)
			tok, ok := headerTokens(r, pri, H)
			if !ok {
				tok, _ = headerTokens(r, pri, 18+r.Intn(40))
			}
			j.emit(buildLine(strconv.Itoa(pri), &tok, msg, true), "")
		}
	}}
}

// ---- sampled: tokens -------------------------------------------------------------------------------------------

func randWellFormed(r *rand.Rand) (priText string, tok [6][]byte, msg []byte, hasMsg bool) {
	priText = strconv.Itoa(r.Intn(192))
	for t := 0; t < 6; t++ {
		tok[t] = randToken(r, tokenLen(r))
	}
	if r.Intn(4) == 0 {
		tok[0] = []byte(sampleStamps[r.Intn(len(sampleStamps))])
	}
	hasMsg = r.Intn(50) != 0
	if hasMsg {
		n := r.Intn(48)
		if r.Intn(8) == 0 {
			n = 0
		}
		msg = randMessage(r, n, r.Intn(3), 1<<30)
		if r.Intn(10) == 0 && n > 0 {
			msg[0] = ' ' // a message that itself starts with a space
		}
	}
	return
}

func tokensJob(n, idx int) job {
	return job{stream: "tokens", index: idx, run: func(j *jobCtx) {
		r := j.rng
		for i := 0; i < n; i++ {
			if r.Intn(3) == 0 {
				// total length 28..37: around the minimal supported length
				target := 28 + r.Intn(10)
				pri := r.Intn(192)
				priText := strconv.Itoa(pri)
				var tok [6][]byte
				used := 3 + len(priText)
				for t := 0; t < 6; t++ {
					tok[t] = randToken(r, 1+r.Intn(3))
					used += 1 + len(tok[t])
				}
				hasMsg := r.Intn(6) != 0
				var msg []byte
				if hasMsg {
					m := target - used - 1
					if m < 0 {
						m = 0
					}
					msg = randMessage(r, m, r.Intn(3), 1<<30)
				} else if target > used {
					tok[5] = append(tok[5], randToken(r, target-used)...)
				}
				j.emit(buildLine(priText, &tok, msg, hasMsg), "")
				continue
			}
			p, tok, msg, hasMsg := randWellFormed(r)
			j.emit(buildLine(p, &tok, msg, hasMsg), "")
		}
	}}
}

// ---- sampled: malformed / mixed --------------------------------------------------------------------------------

func mutate(r *rand.Rand, limit int) []byte {
	p, tok, msg, hasMsg := randWellFormed(r)
	if r.Intn(12) == 0 {
		msg = randMessage(r, limit-2+r.Intn(6), r.Intn(4), limit) // mutations of lines near the message limit too
		hasMsg = true
	}
	line := buildLine(p, &tok, msg, hasMsg)
	switch r.Intn(14) {
	case 0, 1, 2: // keep: well-formed lines interleaved with malformed ones
		return line
	case 3: // truncate
		return line[:r.Intn(len(line)+1)]
	case 4: // delete one token
		k := r.Intn(6)
		var t2 [][]byte
		for i, t := range tok {
			if i != k {
				t2 = append(t2, t)
			}
		}
		out := append([]byte("<"+p+">1"), ' ')
		for _, t := range t2 {
			out = append(append(out, t...), ' ')
		}
		return append(out, msg...)
	case 5: // empty token: doubled space inside the header
		k := r.Intn(6)
		tok[k] = nil
		return buildLine(p, &tok, msg, hasMsg)
	case 6:
		return buildLine(oddPris[r.Intn(len(oddPris))], &tok, msg, hasMsg)
	case 7: // odd head
		h := oddHeads[r.Intn(len(oddHeads))]
		rest := buildLine(p, &tok, msg, hasMsg)
		i := 0
		for i < len(rest) && rest[i] != ' ' {
			i++
		}
		return append([]byte(h), rest[i:]...)
	case 8: // first byte replaced
		line[0] = []byte{' ', '>', 0, 0xFF, '1', '\n'}[r.Intn(6)]
		return line
	case 9: // splice binary
		pos := r.Intn(len(line) + 1)
		junk := randMessage(r, 1+r.Intn(6), 2, 1<<30)
		return append(append(append([]byte{}, line[:pos]...), junk...), line[pos:]...)
	case 10: // random bytes, biased to start like a record
		n := r.Intn(80)
		b := randMessage(r, n, 2, 1<<30)
		if n > 4 && r.Intn(2) == 0 {
			copy(b, "<"+strconv.Itoa(r.Intn(300))+">1 ")
		}
		return b
	case 11: // tiny alphabet: reaches every branch of the PRI-token inspection
		n := 28 + r.Intn(14)
		b := make([]byte, n)
		al := []byte("<>1 -19x")
		for i := range b {
			b[i] = al[r.Intn(len(al))]
		}
		if r.Intn(3) != 0 {
			b[0] = '<'
		}
		return b
	case 12: // prefixed
		pre := []string{" ", "\xEF\xBB\xBF", "\n", "x"}[r.Intn(4)]
		return append([]byte(pre), line...)
	default: // version variants
		v := []string{"2", "10", "", "1x", "01", "11"}[r.Intn(6)]
		rest := line[3+len(p):] // after "<p>1"
		return append([]byte("<"+p+">"+v), rest...)
	}
}

func malformedJob(limit, n, idx int) job {
	return job{stream: "mutations", index: idx, run: func(j *jobCtx) {
		for i := 0; i < n; i++ {
			j.emit(mutate(j.rng, limit), "")
		}
	}}
}

// all prefixes of sample lines, incl. the empty input
func prefixJob(limit, idx int) job {
	return job{stream: "prefixes", index: idx, run: func(j *jobCtx) {
		samples := []string{
			"<163>1 2019-08-15T15:50:46.866915+03:00 local1 my-app1 123 fn1 - Something",
			"<34>1 2003-10-11T22:14:15.003Z mymachine.example.com su - ID47 - \xEF\xBB\xBF'su root' failed for lonvick on /dev/pts/8",
			"<165>1 2003-10-11T22:14:15.003Z mymachine.example.com evntslog - ID47 [exampleSDID@32473] An application event log entry",
			"<0>1 - - - - - - mmmmmmmmmmmmmmmmmmmmmmmm",
			"<7>1 2019-08-15T15:50:46Z h i 1 n - é€😀 tail",
		}
		for _, s := range samples {
			for n := 0; n <= len(s); n++ {
				j.emit([]byte(s[:n]), "prefix")
			}
		}
	}}
}

// lines whose total length sits on the pooling threshold (1024), by long token or by long message
func poolJob(limit, idx int) job {
	return job{stream: "pool", index: idx, run: func(j *jobCtx) {
		for total := 1020; total <= 1029; total++ {
			for variant := 0; variant < 4; variant++ {
				pri := j.rng.Intn(192)
				var line []byte
				switch variant {
				case 0: // long header, short message
					msg := []byte("short é")
					tok, ok := headerTokens(j.rng, pri, total-len(msg))
					if !ok {
						continue
					}
					line = buildLine(strconv.Itoa(pri), &tok, msg, true)
				default: // short header, long message (over-long at the small limits)
					H := 18 + j.rng.Intn(30)
					tok, _ := headerTokens(j.rng, pri, H)
					msg := appendFill(nil, total-H, []int{0, 2, 4}[variant-1], j.rng)
					line = buildLine(strconv.Itoa(pri), &tok, msg, true)
				}
				j.emit(line, fmt.Sprintf("pool%d", total))
			}
		}
	}}
}

// ---- job lists -------------------------------------------------------------------------------------------------

func scaledJobs(c *vkit.Ctx, limit int) []job {
	var jobs []job
	idx := 0
	for m := range levelMappings {
		jobs = append(jobs, priJob(m, m%2 == 1, idx))
		idx++
	}
	for di := range cutDeltas {
		jobs = append(jobs, cutJob(limit, di, di))
	}
	jobs = append(jobs, prefixJob(limit, 0), poolJob(limit, 0), poolJob(limit, 1))
	// sampled streams: counts by tier; longer lines at the larger limits cost more, so fewer of them
	var nCut, nTok, nMal int
	switch limit {
	case 64:
		nCut, nTok, nMal = c.N(400000, 4000000), c.N(160000, 1800000), c.N(240000, 2000000)
	case 256:
		nCut, nTok, nMal = c.N(240000, 2800000), c.N(96000, 1200000), c.N(160000, 1600000)
	default:
		nCut, nTok, nMal = c.N(120000, 1200000), c.N(56000, 800000), c.N(80000, 800000)
	}
	per := 2000
	if !c.Quick() {
		per = 20000
	}
	add := func(total int, mk func(n, idx int) job) {
		for i := 0; i*per < total; i++ {
			n := per
			if (i+1)*per > total {
				n = total - i*per
			}
			jobs = append(jobs, mk(n, i))
		}
	}
	add(nCut, func(n, i int) job { return cutRandJob(limit, n, i) })
	add(nTok, func(n, i int) job { return tokensJob(n, i) })
	add(nMal, func(n, i int) job { return malformedJob(limit, n, i) })
	return jobs
}

// defaultSizeJobs: the unscaled 1 MiB limit. A few hundred megabyte-sized lines plus one PRI sweep.
func defaultSizeJobs(c *vkit.Ctx) []job {
	limit := 1 << 20
	recLimit := limit + 256
	var jobs []job
	jobs = append(jobs, priJob(0, false, 0), prefixJob(limit, 0), poolJob(limit, 0))
	idx := 0
	deltas := []int{-1, 0, 1, 2, 3, 4}
	if !c.Quick() {
		deltas = []int{-4, -3, -2, -1, 0, 1, 2, 3, 4, 5, 300}
	}
	for _, d := range deltas {
		d := d
		for _, fill := range []int{0, 2, 4} {
			fill := fill
			jobs = append(jobs, job{stream: "cut1M", index: idx, run: func(j *jobCtx) {
				for s := 1; s <= 4; s++ {
					for o := 0; o <= s; o++ {
						msg, ok := buildCutMsg(limit, cutSpec{d: d, s: s, o: o, fill: fill}, j.rng)
						if !ok {
							continue
						}
						for _, hc := range []int{0, 5} {
							pri := j.rng.Intn(192)
							tok, ok := headerTokens(j.rng, pri, headerLenFor(hc, len(msg), recLimit))
							if !ok {
								continue
							}
							j.ev("default_size_lines", 1)
							j.emit(buildLine(strconv.Itoa(pri), &tok, msg, true), fmt.Sprintf("cut:d%+d:s%do%d:f%d:h%d", d, s, o, fill, hc))
						}
					}
				}
			}})
			idx++
		}
	}
	nRand := c.N(60, 600)
	for i := 0; i*20 < nRand; i++ {
		jobs = append(jobs, job{stream: "cutrand1M", index: i, run: func(j *jobCtx) {
			r := j.rng
			for k := 0; k < 20; k++ {
				mlen := limit - 8 + r.Intn(17)
				if r.Intn(5) == 0 {
					mlen = limit + 9 + r.Intn(600)
				}
				msg := randMessage(r, mlen, r.Intn(4), limit)
				pri := r.Intn(192)
				H := randHeaderLen(r)
				if r.Intn(4) == 0 {
					H = recLimit - 2 + r.Intn(5) - len(msg)
				}
				tok, ok := headerTokens(r, pri, H)
				if !ok {
					tok, _ = headerTokens(r, pri, 40)
				}
				j.ev("default_size_lines", 1)
				j.emit(buildLine(strconv.Itoa(pri), &tok, msg, true), "")
			}
		}})
	}
	return jobs
}
