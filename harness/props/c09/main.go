// C09 — syslog header parsing is faithful and every message is accounted for.
//
// Runs the real syslogparser (directly and through sysloginput.Config.NewParser) with InputLogMaxMessageBytes scaled
// to 64 / 256 / 4096 and at the default 1 MiB, on generated lines, and decides with:
//   - a reference RFC 5424 header splitter (ref.go) for facility / level / six tokens / message,
//   - "longest prefix of <= limit bytes ending on a rune boundary" for over-long messages,
//   - the harness's own tally of what was handed to Parse against the input_* counters read through the Prometheus
//     gatherer after UpdateMetrics.
//
// Legitimate behaviours deliberately allowed (the property does not rule them out):
//   - lines that end right after the structured data (RFC 5424's optional "SP MSG" absent): out of scope of the
//     faithful-fields clause by decision (the property speaks of lines with a message substring), accounting only;
//   - lines shorter than 32 bytes, malformed lines, PRI out of 0..191, signed / zero-padded PRI, version != 1,
//     empty tokens: any outcome (reject, or accept with any split); only "no panic" and "counted exactly once with
//     its byte length as passed or dropped" are demanded, and the overflow label is not predicted for them;
//   - a record of >= InputLogMaxRecordBytes whose message is not valid UTF-8 may lose bytes after the message's last
//     ASCII byte even when the message is not over-long (the line reader hands over such records cut at an arbitrary byte);
//   - over-long arbitrary-byte messages: anything after the last ASCII byte before the cut may be removed;
//   - the byte total of the overflow label, record.Unescaped and record.Timestamp are not looked at.
package main

import (
	"bytes"
	"compress/gzip"
	"encoding/base64"
	"encoding/hex"
	"encoding/json"
	"fmt"
	"io"
	"math/rand"
	"os"
	"runtime"
	"sort"
	"strconv"
	"sync"

	"github.com/relex/gotils/logger"
	"github.com/relex/slog-agent/defs"

	"verifharness/internal/vkit"
)

type violRec struct {
	fp, what string
	witness  map[string]any // set for batch-level violations
	line     []byte         // set for single-line violations: minimised after the merge, only for the first job that saw it
	cfg      envCfg
	stream   string
}

// jobRes is what one job observed; merged into the context in job order so that results do not depend on scheduling.
type jobRes struct {
	evals   int64
	events  map[string]int64
	nontriv map[string]struct{}
	samples []any
	viols   []violRec
}

type job struct {
	stream string
	index  int
	cfg    *envCfg // nil: drawn from the job's PRNG
	run    func(j *jobCtx)
}

type jobCtx struct {
	c        *vkit.Ctx
	job      *job
	rng      *rand.Rand
	e        *env
	res      *jobRes
	limit    int
	batch    [][]byte
	batchCap int
	flushAt  int
	seenFP   map[string]bool
}

func (j *jobCtx) ev(kind string, n int) { j.res.events[kind] += int64(n) }

// wantSample picks one written-out case per stream (first job of the stream at the smallest limit).
func (j *jobCtx) wantSample(o *caseOutcome, line []byte) bool {
	switch j.job.stream {
	case "pri":
		return j.job.index == 0 && o.ref.ok && o.ref.pri == 163
	case "cut":
		return j.job.index == 5 && o.straddle // message length limit+1
	case "prefixes":
		return o.ref.reason == "no-message-part"
	case "tokens":
		return j.job.index == 0 && o.ref.ok && len(line) <= 35
	case "mutations":
		return j.job.index == 0 && !o.ref.ok && len(line) >= 32 && o.ref.reason != "no-message-part"
	}
	return false
}

func sizeBucket(d, near int) (string, bool) {
	if d >= -near && d <= near {
		return fmt.Sprintf("%+d", d), true
	}
	if d < 0 {
		return "<", false
	}
	return ">", false
}

func lenBucket(n int) string {
	if n <= 40 {
		return strconv.Itoa(n)
	}
	b := 64
	for b < n {
		b *= 2
	}
	return "le" + strconv.Itoa(b)
}

// emit hands one generated line to the parser under test and records evidence.
func (j *jobCtx) emit(line []byte, genSig string) {
	e := j.e
	o := e.runCase(line)
	j.res.evals++
	ref := &o.ref
	sig := ""
	nontrivial := genSig != ""
	if ref.ok {
		j.ev("wellformed_lines", 1)
		parts := "wf"
		{
			b, near := sizeBucket(len(ref.msg)-e.limit, 4)
			parts += ":m" + b
			nontrivial = nontrivial || near
			if o.overlong {
				ci := analyseCut(ref.msg, e.limit)
				if ci.straddle {
					parts += fmt.Sprintf(":s%do%d", ci.size, e.limit-ci.k)
					nontrivial = true
				}
				if ci.validPrefix {
					parts += ":v"
				} else {
					parts += ":i"
				}
			}
		}
		b, near := sizeBucket(len(line)-e.recLimit, 2)
		parts += ":r" + b
		nontrivial = nontrivial || near
		b, near = sizeBucket(len(line)-defs.InputLogMinRecordBytesToPool, 2)
		parts += ":p" + b
		nontrivial = nontrivial || near
		if len(line) <= 35 {
			parts += ":n" + strconv.Itoa(len(line))
			nontrivial = true
		}
		sig = parts
	} else {
		j.ev("malformed_lines", 1)
		if ref.reason == "no-message-part" {
			j.ev("messageless_lines_accounting_only", 1)
		}
		sig = "mal:" + ref.reason + ":" + lenBucket(len(line))
		if o.returned {
			sig += ":acc"
		}
		nontrivial = true
	}
	if nontrivial {
		j.res.nontriv[fmt.Sprintf("L%d|%s|%s", e.limit, genSig, sig)] = struct{}{}
	}
	switch {
	case o.panicked:
		j.ev("panics", 1)
	case o.returned:
		j.ev("records_returned", 1)
	default:
		j.ev("records_rejected", 1)
	}
	if o.overlong {
		j.ev("overlong_messages", 1)
	}
	if o.straddle {
		j.ev("straddling_cuts", 1)
	}
	if o.allowedCl {
		j.ev("allowed_record_overflow_tail_clean", 1)
	}
	if len(j.res.samples) == 0 && len(line) < 400 && e.limit == 64 && j.wantSample(&o, line) {
		j.res.samples = append(j.res.samples, map[string]any{"stream": j.job.stream, "InputLogMaxMessageBytes": e.limit, "line_hex": hex.EncodeToString(line),
			"line_quoted": strconv.QuoteToASCII(string(line)), "reference_class": lineClass(ref), "record_returned": o.returned,
			"message_overlong": o.overlong, "cut_straddles_rune": o.straddle, "signature": sig})
	}
	for _, f := range o.findings {
		j.report(f, line)
	}
	j.batch = append(j.batch, line)
	if len(j.batch) >= j.flushAt {
		j.flush()
	}
}

// flush compares the counters with the tally; on a mismatch the batch is replayed line by line on fresh parsers.
func (j *jobCtx) flush() {
	if len(j.batch) == 0 {
		return
	}
	class, what := j.e.compare()
	j.ev("counter_comparisons", 1)
	if class != "" {
		found := false
		for _, line := range j.batch {
			for _, f := range evalSingle(j.e.cfg, line) {
				if len(f.fp) >= len(class) && f.fp[:len(class)] == class {
					j.report(f, line)
					found = true
				}
			}
			if found {
				break
			}
		}
		if !found {
			hexes := []string{}
			for i, l := range j.batch {
				if i < 8 && len(l) < 600 {
					hexes = append(hexes, hex.EncodeToString(l))
				}
			}
			j.addViolation(class+":batch-only", what+fmt.Sprintf(" (batch of %d lines; no single line reproduces it on a fresh parser)", len(j.batch)),
				map[string]any{"batch_size": len(j.batch), "first_lines_hex": hexes, "limit": j.limit, "parser": cfgString(j.e.cfg)})
		}
	}
	j.batch = j.batch[:0]
	// next comparison after 1..batchCap lines (small batches dominate; UpdateMetrics normally runs on a timer)
	n := 1 + j.rng.Intn(j.batchCap)
	if j.rng.Intn(3) == 0 {
		n = 1 + j.rng.Intn(3)
	}
	j.flushAt = n
}

func cfgString(c envCfg) string {
	kind := "syslogparser.NewParser"
	if c.composite {
		kind = "sysloginput.Config.NewParser"
	}
	return fmt.Sprintf("%s levelMapping#%d schemaPerm=%d", kind, c.mapID, c.perm)
}

// report records the first occurrence of a fingerprint in this job, with a minimised witness.
func (j *jobCtx) report(f finding, line []byte) {
	if j.seenFP[f.fp] {
		return
	}
	j.seenFP[f.fp] = true
	j.res.viols = append(j.res.viols, violRec{fp: f.fp, what: f.what, line: line, cfg: j.e.cfg, stream: j.job.stream})
}

func (j *jobCtx) addViolation(fp, what string, w map[string]any) {
	j.seenFP[fp] = true
	j.res.viols = append(j.res.viols, violRec{fp: fp, what: what, witness: w})
}

func witnessOf(line []byte, limit int, cfg envCfg, stream string) map[string]any {
	w := map[string]any{"stream": stream, "InputLogMaxMessageBytes": limit, "InputLogMaxRecordBytes": limit + 256,
		"parser": cfgString(cfg), "parser_cfg": map[string]any{"mapID": cfg.mapID, "composite": cfg.composite, "perm": cfg.perm}, "line_len": len(line)}
	if len(line) <= 8192 {
		w["line_hex"] = hex.EncodeToString(line)
		w["line_quoted"] = strconv.QuoteToASCII(string(line))
	} else {
		var zb bytes.Buffer
		zw := gzip.NewWriter(&zb)
		_, _ = zw.Write(line)
		_ = zw.Close()
		w["line_gzip_base64"] = base64.StdEncoding.EncodeToString(zb.Bytes())
		w["head_quoted"] = strconv.QuoteToASCII(string(line[:200]))
		w["tail_hex"] = hex.EncodeToString(line[len(line)-32:])
		r := refSplit(line)
		if r.ok && r.hasMsg {
			w["message_len"] = len(r.msg)
			if len(r.msg) > limit+8 && limit > 8 {
				w["message_around_cut_hex"] = hex.EncodeToString(r.msg[limit-8 : limit+8])
			}
		}
	}
	return w
}

// shrink greedily removes chunks of the line while a fresh parser still shows the same fingerprint.
func shrink(cfg envCfg, line []byte, fp string) []byte {
	if len(line) > 1<<15 {
		return line
	}
	has := func(l []byte) bool {
		for _, f := range evalSingle(cfg, l) {
			if f.fp == fp {
				return true
			}
		}
		return false
	}
	if !has(line) {
		return line
	}
	cur := append([]byte(nil), line...)
	budget := 4000
	for chunk := len(cur) / 2; chunk >= 1; chunk /= 2 {
		for i := 0; i+chunk <= len(cur) && budget > 0; {
			cand := append(append(make([]byte, 0, len(cur)), cur[:i]...), cur[i+chunk:]...)
			budget--
			if has(cand) {
				cur = cand
			} else {
				i += chunk
			}
		}
	}
	// make the remaining bytes plain where that keeps the failure
	for i := 0; i < len(cur) && budget > 0 && len(cur) <= 512; i++ {
		if cur[i] == 'x' || cur[i] == ' ' || cur[i] == '-' {
			continue
		}
		old := cur[i]
		cur[i] = 'x'
		budget--
		if !has(cur) {
			cur[i] = old
		}
	}
	return cur
}

var reported = map[string]bool{} // fingerprints already handed to the context (main goroutine only)

func runJobs(c *vkit.Ctx, limit int, jobs []job, batchCap int) {
	defs.InputLogMaxMessageBytes = limit
	defs.InputLogMaxRecordBytes = limit + 256
	defs.ListenerLineBufferSize = defs.InputLogMaxRecordBytes * 4
	results := make([]*jobRes, len(jobs))
	workers := runtime.GOMAXPROCS(0)
	if workers > 12 {
		workers = 12
	}
	ch := make(chan int)
	var wg sync.WaitGroup
	for w := 0; w < workers; w++ {
		wg.Add(1)
		go func() {
			defer wg.Done()
			for i := range ch {
				jb := &jobs[i]
				rng := c.Rand(fmt.Sprintf("L%d/%s", limit, jb.stream), jb.index)
				cfg := envCfg{mapID: rng.Intn(len(levelMappings)), composite: rng.Intn(3) == 0}
				if rng.Intn(2) == 0 {
					cfg.perm = 1 + rng.Int63n(1<<40)
				}
				if jb.cfg != nil {
					cfg = *jb.cfg
				}
				res := &jobRes{events: map[string]int64{}, nontriv: map[string]struct{}{}}
				j := &jobCtx{c: c, job: jb, rng: rng, e: newEnv(cfg), res: res, limit: limit, batchCap: batchCap, flushAt: 1 + rng.Intn(batchCap),
					seenFP: map[string]bool{}}
				jb.run(j)
				j.flush()
				results[i] = res
			}
		}()
	}
	for i := range jobs {
		ch <- i
	}
	close(ch)
	wg.Wait()
	for _, r := range results {
		c.Eval(int(r.evals))
		keys := make([]string, 0, len(r.events))
		for k := range r.events {
			keys = append(keys, k)
		}
		sort.Strings(keys)
		for _, k := range keys {
			c.Event(k, int(r.events[k]))
		}
		for s := range r.nontriv {
			c.Nontrivial(s)
		}
		for _, s := range r.samples {
			c.Sample(s)
		}
		for _, v := range r.viols {
			if reported[v.fp] {
				continue
			}
			reported[v.fp] = true
			if v.line != nil {
				// minimise while the size limits of this phase are still in force
				min := shrink(v.cfg, v.line, v.fp)
				for _, g := range evalSingle(v.cfg, min) {
					if g.fp == v.fp {
						v.what = g.what
					}
				}
				v.witness = witnessOf(min, limit, v.cfg, v.stream)
			}
			c.Violation(v.fp, v.what, v.witness)
		}
	}
}

func main() {
	logger.SetLogLevel(logger.FatalLevel) // the parser warns on every malformed or over-long line
	selfTestReference()
	if len(os.Args) >= 3 && os.Args[1] == "--replay" {
		replay(os.Args[2])
		return
	}
	c := vkit.Start("C09", "exploration")
	c.Rule("lines built from a grammar (PRI, version, six tokens, message) and structural mutations of them, classified by an independent " +
		"RFC 5424 splitter; enumerated: every PRI 0..999 x 4 level mappings, every (message length limit-4..limit+8 | +64 | +300) x (probe rune of " +
		"1-4 bytes at every offset across the cut) x 6 fill kinds x ASCII/non-ASCII continuation x 8 header lengths around the record margin, " +
		"all prefixes of sample lines; sampled: random tokens, random / arbitrary-byte messages around the limits, mutations. " +
		"signature = (limit, generator point, reference class: message length vs limit within +-4, straddled rune size/offset, valid/invalid prefix, " +
		"record length vs InputLogMaxRecordBytes within +-2, vs the pooling threshold within +-2, line length <= 35, reject reason + length class); " +
		"a case is non-trivial when one of these places it on a boundary or on a reject branch")
	c.Assume("in scope = at least 32 bytes, '<' PRIVAL '>' '1' SP, PRIVAL 0..191 without sign or leading zero, six non-empty tokens without 0x20 separated by single spaces, then SP + message (any bytes, possibly empty); a line ending right after the structured data (no SP MSG) is accounting-only")
	c.Assume("facility = RFC 5424 keyword table indexed by PRI>>3 in the agent's documented spelling; level = configured mapping[PRI&7], default emerg..debug")
	c.Assume("a record is 'passed' when Parse returns it and 'dropped' when Parse returns nil (extraction transforms used here never drop)")
	c.Assume("for a message valid as UTF-8 up to the cut, 'cut to the limit at a valid UTF-8 boundary' = longest prefix of <= limit bytes ending on a rune boundary")

	for _, limit := range []int{64, 256, 4096} {
		runJobs(c, limit, scaledJobs(c, limit), 64)
	}
	runJobs(c, 1<<20, defaultSizeJobs(c), 4)
	c.Exhaustive("at each of InputLogMaxMessageBytes 64/256/4096: every PRI 0..999 x 4 level mappings x 2 line templates; every message length in " +
		"limit-4..limit+8 (and +64, +300) x probe rune of 1-4 bytes at every offset across the cut x 6 fill kinds x 2 continuations x 8 header-length classes; " +
		"every prefix of 5 sample lines")

	c.Require("wellformed_lines", 50000)
	c.Require("malformed_lines", 5000)
	c.Require("records_returned", 50000)
	c.Require("records_rejected", 5000)
	c.Require("overlong_messages", 10000)
	c.Require("straddling_cuts", 3000)
	c.Require("counter_comparisons", 5000)
	c.Require("default_size_lines", 200)
	c.Require("messageless_lines_accounting_only", 500)
	c.Finish()
}

// replay re-runs the single line of a replay file on a fresh parser built from the current tree:
//
//	./check C09 quick --replay /verif/replays/C09/<fingerprint>.json
func replay(path string) {
	b, err := os.ReadFile(path)
	if err != nil {
		fmt.Println("REPLAY-ERROR", err)
		os.Exit(2)
	}
	var rep struct {
		Fingerprint string `json:"fingerprint"`
		Witness     struct {
			Limit  int    `json:"InputLogMaxMessageBytes"`
			Hex    string `json:"line_hex"`
			Gz     string `json:"line_gzip_base64"`
			Parser struct {
				MapID     int   `json:"mapID"`
				Composite bool  `json:"composite"`
				Perm      int64 `json:"perm"`
			} `json:"parser_cfg"`
		} `json:"witness"`
	}
	if err := json.Unmarshal(b, &rep); err != nil || rep.Witness.Limit == 0 {
		fmt.Println("REPLAY-ERROR not a single-line C09 replay file:", err)
		os.Exit(2)
	}
	var line []byte
	if rep.Witness.Gz != "" {
		raw, _ := base64.StdEncoding.DecodeString(rep.Witness.Gz)
		zr, err := gzip.NewReader(bytes.NewReader(raw))
		if err == nil {
			line, _ = io.ReadAll(zr)
		}
	} else {
		line, _ = hex.DecodeString(rep.Witness.Hex)
	}
	defs.InputLogMaxMessageBytes = rep.Witness.Limit
	defs.InputLogMaxRecordBytes = rep.Witness.Limit + 256
	cfg := envCfg{mapID: rep.Witness.Parser.MapID, composite: rep.Witness.Parser.Composite, perm: rep.Witness.Parser.Perm}
	fs := evalSingle(cfg, line)
	reproduced := false
	for _, f := range fs {
		fmt.Printf("REPLAY finding %s: %s\n", f.fp, f.what)
		if f.fp == rep.Fingerprint {
			reproduced = true
		}
	}
	fmt.Printf("REPLAY property=C09 fingerprint=%s line_len=%d reproduced=%v\n", rep.Fingerprint, len(line), reproduced)
	if reproduced {
		os.Exit(1)
	}
	os.Exit(0)
}
