package main

// Reference model for C09, written from RFC 5424 section 6 and the package documentation of
// input/syslogparser ("facility, level, time, host, app, pid, source, extradata and log"). It shares no code
// with the parser.
//
//   SYSLOG-MSG = "<" PRIVAL ">" "1" SP TIMESTAMP SP HOSTNAME SP APP-NAME SP PROCID SP MSGID SP SD [SP MSG]
//
// In scope of the property ("well-formed RFC 5424 line of at least the minimal supported length, structured
// data without spaces"):
//   * at least 32 bytes (the minimal length the agent documents: "<3>1 2019-08-15T15:50:46 h i 1 n");
//   * PRIVAL = "0" or a 1-3 digit number without leading zero, value 0..191;
//   * version exactly "1";
//   * six non-empty tokens without a space byte (0x20), any other byte allowed (the quantifier says
//     "all token contents without spaces"), separated by exactly one space;
//   * then one space and the message: any bytes, any length, possibly empty.
// Everything else is "malformed": only the accounting clause and no-panic apply to it.
//
// Out of scope on purpose: a line that ends right after the structured data. RFC 5424 makes "[SP MSG]" optional,
// but the property speaks of lines that have a message substring and the parser's documented record always has a
// log field, so message-less lines belong to the accounting-only class (reason "no-message-part"): they must be
// counted exactly once as passed or dropped and must not panic, nothing is demanded about their fields. (The pinned
// tree drops them with "missing syslog field 'extradata'".)

import (
	"bytes"
	"fmt"
	"unicode/utf8"
)

// facility keywords by number (RFC 5424 table 1, in the spelling the agent documents)
var refFacility = []string{
	"kern", "user", "mail", "daemon", "auth", "syslog", "lpr", "news", "uucp", "cron", "authpriv", "ftp",
	"ntp", "audit", "alert", "clock", "local0", "local1", "local2", "local3", "local4", "local5", "local6", "local7",
}

// severity keywords used when no level mapping is configured
var refSeverity = []string{"emerg", "alert", "crit", "err", "warn", "notice", "info", "debug"}

const minSupportedLen = 32

type refResult struct {
	ok     bool   // in scope: well-formed and >= minSupportedLen
	reason string // first failing check when !ok (class of the malformed line)
	pri    int
	tok    [6][]byte // time host app pid source(msgid) extradata(sd)
	msg    []byte
	hasMsg bool // always true when ok (kept so that the field checks read naturally)
}

var tokNames = [6]string{"time", "host", "app", "pid", "source", "extradata"}

func refSplit(line []byte) (r refResult) {
	if len(line) < minSupportedLen {
		r.reason = "short"
		return
	}
	if line[0] != '<' {
		r.reason = "no-lt"
		return
	}
	i := 1
	for i < len(line) && line[i] >= '0' && line[i] <= '9' {
		i++
	}
	nd := i - 1
	switch {
	case nd == 0:
		r.reason = "pri-nodigit"
		return
	case nd > 3:
		r.reason = "pri-long"
		return
	case nd > 1 && line[1] == '0':
		r.reason = "pri-leadzero"
		return
	}
	pri := 0
	for _, d := range line[1:i] {
		pri = pri*10 + int(d-'0')
	}
	if line[i] != '>' { // i <= 4 < 32
		r.reason = "pri-nondigit"
		return
	}
	if pri > 191 {
		r.reason = "pri-range"
		return
	}
	i++
	if line[i] != '1' || line[i+1] != ' ' {
		r.reason = "version"
		return
	}
	i += 2
	r.pri = pri
	for t := 0; t < 6; t++ {
		j := bytes.IndexByte(line[i:], ' ')
		if j < 0 {
			if t == 5 && i < len(line) {
				r.reason = "no-message-part" // well-formed RFC 5424 without "SP MSG": accounting only, see above
				return
			}
			r.reason = "missing-" + tokNames[t]
			return
		}
		if j == 0 {
			r.reason = "empty-" + tokNames[t]
			return
		}
		r.tok[t] = line[i : i+j]
		i += j + 1
	}
	r.msg = line[i:]
	r.hasMsg = true
	r.ok = true
	return
}

// lastASCIIEnd returns the index just after the last byte <= 0x7F of p (0 if none).
func lastASCIIEnd(p []byte) int {
	for i := len(p) - 1; i >= 0; i-- {
		if p[i] <= 0x7F {
			return i + 1
		}
	}
	return 0
}

// cutInfo describes where a cut at byte offset L falls in msg (len(msg) > L), under the canonical sequential
// decoding of the bytes (an invalid byte is a unit of its own; an ASCII byte is always a unit boundary, so
// decoding may start after the last ASCII byte before the cut).
type cutInfo struct {
	straddle    bool // a VALID multi-byte sequence starts before L and ends after it
	k           int  // start of that sequence (== L if !straddle)
	size        int  // its size in bytes
	validPrefix bool // msg[:end of the unit containing L-1] is valid UTF-8 as a whole
	asciiEnd    int  // lastASCIIEnd(msg[:L])
}

func analyseCut(msg []byte, L int) cutInfo {
	ci := cutInfo{k: L}
	ci.asciiEnd = lastASCIIEnd(msg[:L])
	pos := ci.asciiEnd
	end := L
	for pos < L {
		r, sz := utf8.DecodeRune(msg[pos:])
		if pos+sz > L {
			if !(r == utf8.RuneError && sz == 1) {
				ci.straddle = true
				ci.k = pos
				ci.size = sz
				end = pos + sz
			}
			break
		}
		pos += sz
	}
	ci.validPrefix = utf8.Valid(msg[:end])
	return ci
}

// expectation for the message field. limit/recLimit are the configured InputLogMaxMessageBytes/RecordBytes.
// Returns "" if got is acceptable, otherwise a violation class and a description.
//
// Demanded (exactly the property):
//   - not over-long: the field is the message substring of the line;
//   - over-long, prefix valid UTF-8: the field is the longest prefix of <= limit bytes that ends on a rune boundary
//     ("cut to the configured limit at a valid UTF-8 boundary");
//   - over-long, arbitrary bytes: length <= limit, identical to the message up to the last ASCII byte before the cut,
//     and not ending with the leading part of a valid sequence that straddles the cut.
//
// Deliberately allowed:
//   - when the whole record is >= InputLogMaxRecordBytes (the line reader hands over such records cut at an arbitrary
//     byte, so the parser cleans the tail) and the message is NOT valid UTF-8, bytes after the last ASCII byte of the
//     message may have been removed even if the message is not over-long;
//   - for arbitrary-byte over-long messages, anything after the last ASCII byte before the cut may be removed.
func checkMessage(msg []byte, got string, rawLen, limit, recLimit int) (class, what string, allowedClean bool) {
	if len(msg) <= limit {
		if got == string(msg) {
			return "", "", false
		}
		if rawLen >= recLimit && !utf8.Valid(msg) {
			a := lastASCIIEnd(msg)
			if len(got) >= a && len(got) <= len(msg) && got[:a] == string(msg[:a]) {
				return "", "", true
			}
		}
		return "msg-altered", fmt.Sprintf("message of %d bytes (limit %d) is not over-long but the log field (%d bytes) differs from it", len(msg), limit, len(got)), false
	}
	ci := analyseCut(msg, limit)
	p := msg[:limit]
	if len(got) > limit {
		return "cut-overlimit", fmt.Sprintf("message of %d bytes not cut to the limit %d: log field has %d bytes", len(msg), limit, len(got)), false
	}
	partial := string(msg[ci.k:limit])
	if ci.validPrefix {
		want := string(p[:ci.k])
		if got == want {
			return "", "", false
		}
		if ci.straddle && len(got) > ci.k && got == string(p[:len(got)]) {
			return "cut-midrune", fmt.Sprintf("message of %d bytes cut at %d inside a %d-byte UTF-8 sequence starting at %d: log field ends with % x",
				len(msg), limit, ci.size, ci.k, partial), false
		}
		return "cut-wrong", fmt.Sprintf("message of %d bytes (valid UTF-8 up to the cut): log field has %d bytes, want the %d-byte prefix ending on a rune boundary",
			len(msg), len(got), len(want)), false
	}
	a := ci.asciiEnd
	if len(got) < a || got[:a] != string(p[:a]) {
		return "cut-wrong", fmt.Sprintf("message of %d bytes (arbitrary bytes): log field (%d bytes) differs from the message before its last ASCII byte at %d", len(msg), len(got), a), false
	}
	if ci.straddle {
		isPrefix := got == string(p[:len(got)])
		if (isPrefix && len(got) > ci.k) || (!isPrefix && len(got) > a && endsInvalid(got) && hasSuffix(got, partial)) {
			return "cut-midrune", fmt.Sprintf("message of %d bytes (arbitrary bytes) cut at %d inside a valid %d-byte UTF-8 sequence starting at %d: log field ends with % x",
				len(msg), limit, ci.size, ci.k, partial), false
		}
	}
	return "", "", false
}

func endsInvalid(s string) bool {
	r, sz := utf8.DecodeLastRuneInString(s)
	return r == utf8.RuneError && sz == 1
}

func hasSuffix(s, suf string) bool { return len(s) >= len(suf) && s[len(s)-len(suf):] == suf }

// selfTestReference checks the reference against the repository's own unit-test vectors and the RFC's examples.
// A disagreement means the reference is wrong: the check must not run.
func selfTestReference() {
	type vec struct {
		line                                     string
		ok                                       bool
		fac, sev                                 int
		time, host, app, pid, source, extra, msg string
		hasMsg                                   bool
	}
	vecs := []vec{
		{"<163>1 2019-08-15T15:50:46.866915+03:00 local1 my-app1 123 fn1 - Something", true, 20, 3,
			"2019-08-15T15:50:46.866915+03:00", "local1", "my-app1", "123", "fn1", "-", "Something", true},
		{"<163>1 2020-09-17T16:51:47.867Z local2 my-app2 456 fn2 - Something else", true, 20, 3,
			"2020-09-17T16:51:47.867Z", "local2", "my-app2", "456", "fn2", "-", "Something else", true},
		{"<34>1 2003-10-11T22:14:15.003Z mymachine.example.com su - ID47 - \xEF\xBB\xBF'su root' failed for lonvick on /dev/pts/8", true, 4, 2,
			"2003-10-11T22:14:15.003Z", "mymachine.example.com", "su", "-", "ID47", "-", "\xEF\xBB\xBF'su root' failed for lonvick on /dev/pts/8", true},
		{"<165>1 2003-08-24T05:14:15.000003-07:00 192.0.2.1 myproc 8710 - - %% It's time to make the do-nuts.", true, 20, 5,
			"2003-08-24T05:14:15.000003-07:00", "192.0.2.1", "myproc", "8710", "-", "-", "%% It's time to make the do-nuts.", true},
		{"<165>1 2003-10-11T22:14:15.003Z mymachine.example.com evntslog - ID47 [exampleSDID@32473]", false, 0, 0, "", "", "", "", "", "", "", false},
		{"<165>1 2003-10-11T22:14:15.003Z mymachine.example.com evntslog - ID47 [exampleSDID@32473] ", true, 20, 5,
			"2003-10-11T22:14:15.003Z", "mymachine.example.com", "evntslog", "-", "ID47", "[exampleSDID@32473]", "", true},
		{"<0>1 - - - - - - mmmmmmmmmmmmmmmmm", true, 0, 0, "-", "-", "-", "-", "-", "-", "mmmmmmmmmmmmmmmmm", true},
		{"<191>1 - - - - - - mmmmmmmmmmmmmmm", true, 23, 7, "-", "-", "-", "-", "-", "-", "mmmmmmmmmmmmmmm", true},
		{"hello world", false, 0, 0, "", "", "", "", "", "", "", false},
		{"<192>1 - - - - - - mmmmmmmmmmmmmmm", false, 0, 0, "", "", "", "", "", "", "", false},
		{"<13>1 - - - - - - short", false, 0, 0, "", "", "", "", "", "", "", false},
		{"<13>2 2019-08-15T15:50:46Z h a p m - message", false, 0, 0, "", "", "", "", "", "", "", false},
		{"<13>1 2019-08-15T15:50:46Z  a p m - message text", false, 0, 0, "", "", "", "", "", "", "", false},
		{"<013>1 2019-08-15T15:50:46Z h a p m - message", false, 0, 0, "", "", "", "", "", "", "", false},
		{"< 2019-08-15T15:50:46Z h a p m - message text", false, 0, 0, "", "", "", "", "", "", "", false},
	}
	for _, v := range vecs {
		r := refSplit([]byte(v.line))
		bad := r.ok != v.ok
		if !bad && v.ok {
			bad = r.pri>>3 != v.fac || r.pri&7 != v.sev || string(r.tok[0]) != v.time || string(r.tok[1]) != v.host ||
				string(r.tok[2]) != v.app || string(r.tok[3]) != v.pid || string(r.tok[4]) != v.source ||
				string(r.tok[5]) != v.extra || string(r.msg) != v.msg || r.hasMsg != v.hasMsg
		}
		if bad {
			panic(fmt.Sprintf("C09 reference self-test failed on %q: %+v", v.line, r))
		}
	}
	// cut analysis
	type cv struct {
		msg      string
		L        int
		straddle bool
		k        int
		valid    bool
	}
	for _, v := range []cv{
		{"abc€x", 3, false, 3, true}, {"abc€x", 4, true, 3, true}, {"abc€x", 5, true, 3, true}, {"abc€x", 6, false, 6, true},
		{"\xE2\x82\xE2\x82\xACx", 3, true, 2, false}, {"\xE2\x82\xE2\x82\xACx", 2, false, 2, false},
		{"é😀", 4, true, 2, true}, {"ab\xffcd", 3, false, 3, false},
	} {
		ci := analyseCut([]byte(v.msg), v.L)
		if ci.straddle != v.straddle || ci.k != v.k || ci.validPrefix != v.valid {
			panic(fmt.Sprintf("C09 cut self-test failed on %q at %d: %+v", v.msg, v.L, ci))
		}
	}
	if c, _, _ := checkMessage([]byte("abc€x"), "abc", 40, 4, 260); c != "" {
		panic("C09 checkMessage self-test 1: " + c)
	}
	if c, _, _ := checkMessage([]byte("abc€x"), "abc\xE2", 40, 4, 260); c != "cut-midrune" {
		panic("C09 checkMessage self-test 2: " + c)
	}
	if c, _, _ := checkMessage([]byte("abcdef"), "abcd", 40, 4, 260); c != "" {
		panic("C09 checkMessage self-test 3: " + c)
	}
	if c, _, _ := checkMessage([]byte("abcdef"), "abc", 40, 4, 260); c != "cut-wrong" {
		panic("C09 checkMessage self-test 4: " + c)
	}
	if c, _, _ := checkMessage([]byte("abcdef"), "abcde", 40, 4, 260); c != "cut-overlimit" {
		panic("C09 checkMessage self-test 5: " + c)
	}
}
