package main

import (
	"fmt"
	"math/rand"
	"regexp"
	"runtime"
	"strings"
	"time"

	"github.com/relex/gotils/logger"
	"github.com/relex/gotils/promexporter/promreg"
	"github.com/relex/slog-agent/base"
	"github.com/relex/slog-agent/defs"
	"github.com/relex/slog-agent/input/sysloginput"
	"github.com/relex/slog-agent/input/syslogparser"
	"github.com/relex/slog-agent/util"
)

// level mappings under test: 0 = none configured (parser default), 1 = log4j-like, 2 = the sample config's, 3 = synthetic
var levelMappings = [][]string{
	nil,
	{"off", "fatal", "crit", "error", "warn", "notice", "info", "debug"},
	{"OFF", "FATAL", "CRIT", "ERROR", "WARN", "NOTICE", "INFO", "DEBUG"},
	{"S0", "S1", "S2", "S3", "S4", "S5", "S6", "S7"},
}

// envCfg is everything that determines a parser instance (besides the global size limits).
type envCfg struct {
	mapID     int
	composite bool  // true: sysloginput.Config.NewParser (parser + extraction transforms), false: syslogparser.NewParser
	perm      int64 // seed of the schema field order
}

type counters struct {
	passN, passB, dropN, dropB, overN uint64
}

type env struct {
	cfg      envCfg
	limit    int
	recLimit int
	parser   base.LogParser
	alloc    *base.LogAllocator
	counter  *base.LogInputCounterSet
	factory  *promreg.MetricFactory
	mapping  []string
	loc      map[string]base.LogFieldLocator
	now      time.Time

	tally     counters // what the harness saw handed in / returned
	overKnown bool     // false once a case without a defined overflow expectation was seen since the last compare
	tainted   bool     // a panic happened since the last compare: counters cannot be predicted
}

var schemaFields = []string{"facility", "level", "time", "host", "app", "pid", "source", "extradata", "log", "spare1", "spare2"}

func newEnv(cfg envCfg) *env {
	names := append([]string(nil), schemaFields...)
	if cfg.perm != 0 {
		r := rand.New(rand.NewSource(cfg.perm))
		r.Shuffle(len(names), func(i, j int) { names[i], names[j] = names[j], names[i] })
	}
	schema := base.MustNewLogSchema(names)
	e := &env{cfg: cfg, limit: defs.InputLogMaxMessageBytes, recLimit: defs.InputLogMaxRecordBytes,
		loc: map[string]base.LogFieldLocator{}, now: time.Unix(1600000000, 123), overKnown: true}
	e.alloc = base.NewLogAllocator(schema, 1)
	e.factory = promreg.NewMetricFactory("x_", nil, nil)
	e.counter = base.NewLogInputCounter(e.factory)
	mapping := levelMappings[cfg.mapID]
	e.mapping = mapping
	if mapping == nil {
		e.mapping = refSeverity
	}
	var err error
	if cfg.composite {
		conf := &sysloginput.Config{}
		y := "type: syslog\naddress: localhost:0\nlevelMapping: [" + strings.Join(e.mapping, ", ") + "]\n" +
			"extractions:\n  - type: delFields\n    keys: [spare1]\n"
		if err = util.UnmarshalYamlString(y, conf); err != nil {
			panic(err)
		}
		e.parser, err = conf.NewParser(logger.Root(), e.alloc, schema, e.counter)
	} else {
		e.parser, err = syslogparser.NewParser(logger.Root(), e.alloc, schema, mapping, e.counter)
	}
	if err != nil {
		panic(err)
	}
	for _, n := range schemaFields[:9] {
		e.loc[n] = schema.MustCreateFieldLocator(n)
	}
	return e
}

type finding struct {
	fp   string
	what string
}

var numRe = regexp.MustCompile(`[0-9]+`)

// safeParse runs Parse under recover; a panic is returned as (class, text).
func (e *env) safeParse(line []byte) (rec *base.LogRecord, panClass, panText string) {
	defer func() {
		if p := recover(); p != nil {
			panText = fmt.Sprint(p)
			site := "unknown"
			pcs := make([]uintptr, 40)
			n := runtime.Callers(2, pcs)
			fr := runtime.CallersFrames(pcs[:n])
			for {
				f, more := fr.Next()
				if strings.Contains(f.Function, "github.com/relex/slog-agent/") {
					site = strings.TrimPrefix(f.Function, "github.com/relex/slog-agent/")
					break
				}
				if !more {
					break
				}
			}
			panClass = shortFunc(site) + ":" + panicKind(panText)
			rec = nil
		}
	}()
	rec = e.parser.Parse(line, e.now)
	return
}

type caseOutcome struct {
	ref       refResult
	returned  bool
	panicked  bool
	overlong  bool
	straddle  bool
	allowedCl bool
	findings  []finding
}

// runCase hands one line to the parser, checks the record against the reference and updates the harness tally.
func (e *env) runCase(line []byte) (o caseOutcome) {
	o.ref = refSplit(line)
	ref := &o.ref
	rec, panClass, panText := e.safeParse(line)
	if panClass != "" {
		o.panicked = true
		e.tainted = true
		o.findings = append(o.findings, finding{"panic:" + panClass,
			fmt.Sprintf("Parse panics (%s) on a %d-byte line [%s]: %s", panClass, len(line), lineClass(ref), panText)})
		return
	}
	o.returned = rec != nil
	if rec != nil {
		e.tally.passN++
		e.tally.passB += uint64(len(line))
	} else {
		e.tally.dropN++
		e.tally.dropB += uint64(len(line))
	}
	if !ref.ok {
		// malformed or below the minimal supported length: any outcome is legitimate (reject, or accept with whatever
		// split), the overflow label is not predicted
		e.overKnown = false
		if rec != nil {
			e.alloc.Release(rec)
		}
		return
	}
	o.overlong = ref.hasMsg && len(ref.msg) > e.limit
	if o.overlong && rec != nil {
		e.tally.overN++
	}
	if rec == nil {
		e.overKnown = false // already a violation; whether a rejected line counts as overflow is not stated
		o.findings = append(o.findings, finding{"rejected-wellformed",
			fmt.Sprintf("well-formed RFC 5424 line of %d bytes (%s) rejected by the parser", len(line), lineClass(ref))})
		return
	}
	get := func(n string) string { return e.loc[n].Get(rec.Fields) }
	if g, w := get("facility"), refFacility[ref.pri>>3]; g != w {
		o.findings = append(o.findings, finding{"field:facility", fmt.Sprintf("PRI %d: facility %q, want %q (PRI>>3 = %d)", ref.pri, g, w, ref.pri>>3)})
	}
	if g, w := get("level"), e.mapping[ref.pri&7]; g != w {
		o.findings = append(o.findings, finding{"field:level", fmt.Sprintf("PRI %d with mapping %v: level %q, want %q (PRI&7 = %d)", ref.pri, e.mapping, g, w, ref.pri&7)})
	}
	for t, n := range tokNames {
		if g := get(n); g != string(ref.tok[t]) {
			o.findings = append(o.findings, finding{"field:" + n, fmt.Sprintf("field %s = %q, want the line's token %q", n, clip(g), clip(string(ref.tok[t])))})
		}
	}
	got := get("log")
	{
		class, what, allowed := checkMessage(ref.msg, got, len(line), e.limit, e.recLimit)
		o.allowedCl = allowed
		if o.overlong {
			ci := analyseCut(ref.msg, e.limit)
			o.straddle = ci.straddle
		}
		if class != "" {
			fp := class
			if strings.HasPrefix(class, "cut-") {
				fp = fmt.Sprintf("%s:limit%d", class, e.limit)
			}
			o.findings = append(o.findings, finding{fp, what})
		}
	}
	e.alloc.Release(rec)
	return
}

func clip(s string) string {
	if len(s) > 80 {
		return s[:60] + fmt.Sprintf("...(%d bytes)", len(s))
	}
	return s
}

func lineClass(r *refResult) string {
	if r.ok {
		return "well-formed"
	}
	return "malformed: " + r.reason
}

// gather reads the input counters the way an operator would: through the Prometheus gatherer.
func (e *env) gather() counters {
	e.counter.UpdateMetrics()
	mfs, err := e.factory.Gather()
	if err != nil {
		panic(err)
	}
	var c counters
	for _, mf := range mfs {
		for _, m := range mf.GetMetric() {
			v := uint64(m.GetCounter().GetValue() + 0.5)
			switch mf.GetName() {
			case "x_passed_records_total":
				c.passN = v
			case "x_passed_record_bytes_total":
				c.passB = v
			case "x_dropped_records_total":
				c.dropN = v
			case "x_dropped_record_bytes_total":
				c.dropB = v
			case "x_labelled_records_total":
				for _, l := range m.GetLabel() {
					if l.GetName() == "label" && l.GetValue() == "overflow" {
						c.overN = v
					}
				}
			}
		}
	}
	return c
}

// compare gathers and compares with the tally. Returns "" when equal. Resynchronises the tally afterwards.
// Demanded: passed (count, bytes) == messages for which a record was returned; dropped (count, bytes) == messages for
// which none was returned; hence passed+dropped == everything handed in, each once with its length. The overflow label
// is compared only when every message since the last comparison was in scope of the property.
func (e *env) compare() (class, what string) {
	g := e.gather()
	t := e.tally
	defer func() { e.tally = g; e.overKnown = true; e.tainted = false }()
	if e.tainted {
		return "", ""
	}
	if g.passN != t.passN || g.dropN != t.dropN || g.passB != t.passB || g.dropB != t.dropB {
		switch {
		case g.passN+g.dropN < t.passN+t.dropN:
			class = "accounting:not-counted"
		case g.passN+g.dropN > t.passN+t.dropN:
			class = "accounting:double-counted"
		case g.passN != t.passN:
			class = "accounting:wrong-side"
		default:
			class = "accounting:bytes"
		}
		return class, fmt.Sprintf("counters after UpdateMetrics: passed %d records/%d bytes, dropped %d/%d; handed to Parse: %d returned/%d bytes, %d rejected/%d bytes",
			g.passN, g.passB, g.dropN, g.dropB, t.passN, t.passB, t.dropN, t.dropB)
	}
	if e.overKnown && g.overN != t.overN {
		class = "overflow-missed"
		if g.overN > t.overN {
			class = "overflow-spurious"
		}
		return class, fmt.Sprintf("labelled_records_total{label=overflow} = %d, over-long messages handed in = %d", g.overN, t.overN)
	}
	return "", ""
}

// evalSingle runs one line on a fresh parser with a counter comparison right after it.
func evalSingle(cfg envCfg, line []byte) []finding {
	e := newEnv(cfg)
	o := e.runCase(line)
	fs := o.findings
	if class, what := e.compare(); class != "" {
		fs = append(fs, finding{class + wfSuffix(&o.ref), what + fmt.Sprintf(" (single %d-byte line, %s)", len(line), lineClass(&o.ref))})
	}
	return fs
}

func wfSuffix(r *refResult) string {
	if r.ok {
		return ":wf"
	}
	return ":mal"
}

var nonWord = regexp.MustCompile(`[^a-z]+`)

// shortFunc turns "input/syslogparser.(*syslogParser).Parse" into "syslogparser.Parse".
func shortFunc(f string) string {
	if i := strings.LastIndex(f, "/"); i >= 0 {
		f = f[i+1:]
	}
	parts := strings.Split(f, ".")
	if len(parts) >= 2 {
		return parts[0] + "." + parts[len(parts)-1]
	}
	return f
}

// panicKind keeps the words of a panic message: no numbers, no spaces (fingerprints are whitespace-delimited ids).
func panicKind(text string) string {
	t := strings.ToLower(text)
	t = strings.TrimPrefix(t, "runtime error: ")
	if i := strings.Index(t, "["); i >= 0 {
		t = t[:i]
	}
	t = strings.Trim(nonWord.ReplaceAllString(numRe.ReplaceAllString(t, ""), "-"), "-")
	if len(t) > 48 {
		t = t[:48]
	}
	return t
}
