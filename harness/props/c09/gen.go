package main

import (
	"math/rand"
	"strconv"
)

var (
	runesBySize = [5][]string{
		nil,
		{"a", "b", "c", "X", "Y", "Z", " ", "0", "1", "9", ".", "-", "\t", "=", "\"", "[", "]", "<", ">", "\\", "\n"},
		{"é", "ñ", "ß", "Ж", "\u0080", "߿"},
		{"€", "漢", "あ", "\uFEFF", "ࠀ", "�"},
		{"😀", "𝄞", "𠜎", "\U00010000", "\U0010FFFF"},
	}
	probeRune = [5]string{"", "Z", "é", "€", "😀"}
)

// appendFill appends exactly n bytes of valid UTF-8 that end on a rune boundary.
// kind 0: ASCII letters; 1/2/3: 2-/3-/4-byte runes (no ASCII byte at all when n >= 2); 4: random mix; 5: one 0xFF then 3-byte runes.
func appendFill(dst []byte, n, kind int, r *rand.Rand) []byte {
	if n <= 0 {
		return dst
	}
	switch kind {
	case 0:
		for i := 0; i < n; i++ {
			dst = append(dst, 'a'+byte(i%26))
		}
	case 1, 2, 3:
		k := kind + 1
		unit := probeRune[k]
		for a := 0; a <= 3; a++ {
			for b := 0; b <= 3; b++ {
				rem := n - 2*a - 3*b
				if rem >= 0 && rem%k == 0 {
					for i := 0; i < a; i++ {
						dst = append(dst, "ñ"...)
					}
					for i := 0; i < b; i++ {
						dst = append(dst, "漢"...)
					}
					for i := 0; i < rem/k; i++ {
						dst = append(dst, unit...)
					}
					return dst
				}
			}
		}
		for i := 0; i < n; i++ { // n == 1
			dst = append(dst, 'q')
		}
	case 4:
		for n > 0 {
			s := 1 + r.Intn(4)
			if s > n {
				s = n
			}
			set := runesBySize[s]
			dst = append(dst, set[r.Intn(len(set))]...)
			n -= s
		}
	case 5:
		dst = append(dst, 0xFF)
		dst = appendFill(dst, n-1, 2, r)
	}
	return dst
}

// byte material for tokens: never 0x20
var tokenClasses = [][]string{
	{"a", "b", "z", "A", "Q", "0", "5", "9", ".", "_", "-"},
	{"<", ">", "[", "]", "\"", "=", "\\", "/", "@", ":", ",", "$", "*", "{", "}", "1", ">1", "<13>1"},
	{"é", "€", "😀", "漢", "\uFEFF"},
	{"\x00", "\x01", "\x7f", "\t", "\n", "\r", "\x1b"},
	{"\x80", "\xC2", "\xE2\x82", "\xF0\x9F\x98", "\xFF", "\xC0\xAF", "\xED\xA0\x80"},
}

func randToken(r *rand.Rand, n int) []byte {
	if n == 1 && r.Intn(3) == 0 {
		return []byte("-") // NILVALUE
	}
	cl := tokenClasses[0]
	if r.Intn(3) == 0 {
		cl = tokenClasses[r.Intn(len(tokenClasses))]
	}
	out := make([]byte, 0, n+4)
	for len(out) < n {
		var s string
		if r.Intn(6) == 0 {
			c2 := tokenClasses[r.Intn(len(tokenClasses))]
			s = c2[r.Intn(len(c2))]
		} else {
			s = cl[r.Intn(len(cl))]
		}
		if len(out)+len(s) > n {
			s = "x"
		}
		out = append(out, s...)
	}
	return out
}

func tokenLen(r *rand.Rand) int {
	switch r.Intn(40) {
	case 0:
		return []int{47, 48, 49, 128, 255, 256, 257}[r.Intn(7)]
	case 1:
		return 900 + r.Intn(200)
	case 2, 3, 4, 5, 6, 7:
		return 1
	}
	return 1 + r.Intn(14)
}

var sampleStamps = []string{"2019-08-15T15:50:46.866915+03:00", "2020-09-17T16:51:47.867Z", "-", "2003-10-11T22:14:15.003Z", "1985-04-12T23:20:50.52Z"}

// buildLine assembles a line from its parts; priText is the raw text between '<' and '>'.
func buildLine(priText string, tok *[6][]byte, msg []byte, hasMsg bool) []byte {
	n := 4 + len(priText) + len(msg) + 8
	for _, t := range tok {
		n += len(t) + 1
	}
	out := make([]byte, 0, n)
	out = append(out, '<')
	out = append(out, priText...)
	out = append(out, '>', '1')
	for _, t := range tok {
		out = append(out, ' ')
		out = append(out, t...)
	}
	if hasMsg {
		out = append(out, ' ')
		out = append(out, msg...)
	}
	return out
}

// headerTokens returns tokens such that "<pri>1 " + tokens + " " has exactly H bytes (H >= 17 + digits-1), or ok=false.
func headerTokens(r *rand.Rand, pri int, H int) (tok [6][]byte, ok bool) {
	fixed := 3 + len(strconv.Itoa(pri)) + 1 // "<pri>1" + ' ' before first token -> counted per token below
	// header = "<pri>1" + 6*(" "+tok) + " "  => len = 3+digits + 6 + sum(tok) + 1
	base := fixed - 1 + 6 + 1
	sum := H - base
	if sum < 6 {
		return tok, false
	}
	lens := [6]int{1, 1, 1, 1, 1, 1}
	extra := sum - 6
	// a realistic stamp when there is room
	if extra >= 40 && r.Intn(2) == 0 {
		st := sampleStamps[r.Intn(2)]
		tok[0] = []byte(st)
		extra -= len(st) - 1
		lens[0] = 0
	}
	// spread a little over the small tokens, the rest goes to one token
	for i := 2; i < 6 && extra > 0; i++ {
		a := r.Intn(6)
		if a > extra {
			a = extra
		}
		lens[i] += a
		extra -= a
	}
	lens[1+r.Intn(2)*4] += extra // host or extradata takes the bulk
	for i := 0; i < 6; i++ {
		if lens[i] == 0 {
			continue
		}
		if lens[i] > 40 {
			b := make([]byte, lens[i])
			for k := range b {
				b[k] = 'h'
			}
			copy(b, "[id@1")
			b[len(b)-1] = ']'
			tok[i] = b
		} else {
			tok[i] = randToken(r, lens[i])
		}
	}
	return tok, true
}

// cutSpec is one point of the enumerated truncation space.
type cutSpec struct {
	d     int // message length = limit + d
	s, o  int // probe rune of s bytes with o of them before the cut
	fill  int // material before the probe
	after int // 0: ASCII after the probe, 1: non-ASCII
	hc    int // header class
}

var cutDeltas = []int{-4, -3, -2, -1, 0, 1, 2, 3, 4, 5, 6, 7, 8, 64, 300}

const nHeaderClasses = 8

// buildCutMsg builds the message for a spec; ok=false when the combination cannot exist.
func buildCutMsg(L int, sp cutSpec, r *rand.Rand) (msg []byte, ok bool) {
	total := L + sp.d
	if total < sp.s {
		return nil, false
	}
	msg = make([]byte, 0, total)
	if sp.d <= 0 {
		// not over-long: message of exactly L+d bytes ending in the probe rune
		if sp.o != 0 || sp.after != 0 {
			return nil, false
		}
		msg = appendFill(msg, total-sp.s, sp.fill, r)
		msg = append(msg, probeRune[sp.s]...)
		return msg, len(msg) == total
	}
	tail := sp.d - (sp.s - sp.o)
	if tail < 0 || L-sp.o < 0 {
		return nil, false
	}
	if sp.after == 1 && tail < 2 {
		return nil, false
	}
	msg = appendFill(msg, L-sp.o, sp.fill, r)
	msg = append(msg, probeRune[sp.s]...)
	if sp.after == 0 {
		for i := 0; i < tail; i++ {
			msg = append(msg, 'z')
		}
	} else {
		msg = appendFill(msg, tail, 2, r)
	}
	return msg, len(msg) == total
}

// headerLenFor maps a header class to a header length for a message of mlen bytes.
func headerLenFor(hc, mlen, recLimit int) int {
	switch hc {
	case 0:
		return 18
	case 1:
		return 255
	case 2:
		return 256
	case 3:
		return 257
	case 4:
		return recLimit - 1 - mlen
	case 5:
		return recLimit - mlen
	case 6:
		return recLimit + 1 - mlen
	default:
		return 400
	}
}

// randMessage: material for the random truncation stream.
func randMessage(r *rand.Rand, n int, mode int, L int) []byte {
	msg := make([]byte, 0, n+4)
	switch mode {
	case 0: // valid mixed UTF-8
		msg = appendFill(msg, n, 4, r)
	case 1: // single-size runes
		msg = appendFill(msg, n, r.Intn(4), r)
	case 2: // arbitrary bytes from the hostile classes
		for len(msg) < n {
			if r.Intn(3) == 0 {
				msg = append(msg, byte(r.Intn(256)))
			} else {
				cl := tokenClasses[r.Intn(len(tokenClasses))]
				msg = append(msg, cl[r.Intn(len(cl))]...)
			}
		}
		msg = msg[:n]
	default: // valid, then corrupted near the cut or at the end
		msg = appendFill(msg, n, 1+r.Intn(4), r)
		if n > 0 {
			for k := 0; k < 1+r.Intn(3); k++ {
				pos := n - 1 - r.Intn(minInt(n, 6))
				if r.Intn(2) == 0 && n > L-6 && L > 6 {
					pos = L - 6 + r.Intn(minInt(12, n-(L-6)))
				}
				msg[pos] = []byte{0xFF, 0x80, 0xE2, 0xF0, 0xC2, 'A', ' '}[r.Intn(7)]
			}
		}
	}
	return msg
}

func minInt(a, b int) int {
	if a < b {
		return a
	}
	return b
}

// odd PRI texts (between '<' and '>'): negative, huge, non-numeric, signed, leading zeros
var oddPris = []string{"", "-", "+", "-1", "-0", "-8", "-191", "+5", "+191", "00", "01", "007", "0191", "000", "1000", "1024", "9999",
	"2147483647", "2147483648", "4294967295", "4294967296", "9223372036854775807", "9223372036854775808", "18446744073709551616",
	"99999999999999999999999999999", "a", "1a", "a1", " ", "1 ", " 1", "0x10", "1e2", "1.0", "٣", "１", "1_0", "\x00", "\xff", ">", "<", "1>", ">1", "13>1"}

// whole-line prefixes in place of "<pri>1": the PRI token shapes the parser inspects
var oddHeads = []string{"<", "<>", "<1", "<1>", "<>1", "<1>1", "<1>2", "<1>10", "<1>11", "<1>1x", "<13>", "<13>12", "<13>01", "<13>1\t", "<<13>1", "<13>>1", "1", ">1", "<\x00>1", "<1\x00>1", ""}
