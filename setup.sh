#!/bin/bash
# Offline setup: warm the Go build cache for the harness against /repo (nothing is fetched).
set -u
cd "$(dirname "$0")"
export GOFLAGS=-mod=mod GOPROXY=off GOSUMDB=off GOTOOLCHAIN=local
mkdir -p .build evidence replays
cd harness || exit 1
go build -tags verif ./internal/... || exit 1
go build -tags verif -race ./internal/... 2>/dev/null || true
for d in props/*/; do
  go build -tags verif -o /dev/null "./$d" 2>/dev/null || true
  go build -tags verif -race -o /dev/null "./$d" 2>/dev/null || true
done
exit 0
