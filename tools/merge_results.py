#!/usr/bin/env python3
"""tools/merge_results.py <log>... — takes the result rows that tools/mutants.sh printed (name, property, expected, verdict, fingerprints;
tab-separated) from the logs of `vp run` jobs and puts them into mutants/RESULTS-{own,reverts,seeded}.tsv, replacing older rows."""
import os, re, sys
root = os.path.dirname(os.path.dirname(os.path.abspath(__file__)))
rows = {"own": {}, "reverts": {}, "seeded": {}}
for p in sys.argv[1:]:
    for l in open(p, errors="replace"):
        f = l.rstrip("\n").split("\t")
        if len(f) < 4 or not re.match(r"^(C\d\d)$", f[1]):
            continue
        g = "reverts" if f[0].startswith("revert-") else "seeded" if re.match(r"^c\d\d-s\d+$", f[0]) else "own"
        rows[g][f[0]] = l.rstrip("\n")
for g, new in rows.items():
    if not new:
        continue
    p = os.path.join(root, "mutants", f"RESULTS-{g}.tsv")
    old = open(p).read().split("\n") if os.path.exists(p) else []
    out, seen = [], set()
    for l in old:
        k = l.split("\t")[0]
        if k in new:
            out.append(new[k]); seen.add(k)
        elif l.strip():
            out.append(l)
    for k in sorted(new):
        if k not in seen:
            out.append(new[k])
    open(p, "w").write("\n".join(out) + "\n")
    print(g, "rows merged:", len(new))
