#!/bin/bash
# tools/parsweep.sh <tier> <seed> <outdir> [props...]  — run the checks all at once (worst case for timing- and port-sensitive
# monitors: the machine is oversubscribed several times) with evidence going to <outdir>, and print one line per check.
set -u
TIER="$1"; SEED="$2"; OUT="$3"; shift 3
PROPS="${*:-C01 C02 C03 C04 C05 C06 C07 C08 C09 C10 C11 C12 C13 C14 C15 C16 C17 C18 C19}"
cd "$(dirname "$0")/.."
mkdir -p "$OUT"
for p in $PROPS; do
  ( VERIF_SEED=$SEED VERIF_OUT="$OUT/$p" ./check "$p" "$TIER" > "$OUT/$p.log" 2>&1; echo "rc=$?" >> "$OUT/$p.log" ) &
done
wait
for p in $PROPS; do
  echo "$p $(tail -1 "$OUT/$p.log") $(grep -E '^RESULT' "$OUT/$p.log" | sed -E 's/^RESULT property=C[0-9]+ //')"
  grep -E '^(VIOLATION|BROKEN|  what)' "$OUT/$p.log" | cut -c1-300
done
