#!/bin/bash
# tools/hunt_every.sh <outdir> <first-seed> <count>  — hunt_all.sh and hunt_rest.sh at the same time (all 19 checks, the machine oversubscribed)
set -u
cd "$(dirname "$0")/.."
tools/hunt_all.sh "$1/e2e" "$2" "$3" > "$1.e2e.txt" 2>&1 &
tools/hunt_rest.sh "$1/rest" "$2" "$(( $3 / 2 + 1 ))" > "$1.rest.txt" 2>&1 &
wait
cat "$1.e2e.txt" "$1.rest.txt" | tail -20
