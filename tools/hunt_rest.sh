#!/bin/bash
# tools/hunt_rest.sh <outdir> <first-seed> <count>  — like hunt_all.sh, for the checks that are not built on the end-to-end engine
set -u
OUT="$1"; FIRST="$2"; N="$3"
cd "$(dirname "$0")/.."
mkdir -p "$OUT"
( for p in C02 C03 C12; do tools/hunt.sh $p quick "$FIRST" "$N" "$OUT/$p"; done ) &
( for p in C07 C16 C06 C04; do tools/hunt.sh $p quick "$FIRST" "$N" "$OUT/$p"; done ) &
( for p in C08 C10 C11 C09; do tools/hunt.sh $p quick "$FIRST" "$N" "$OUT/$p"; done ) &
( for p in C13 C14 C15; do tools/hunt.sh $p quick "$FIRST" "$N" "$OUT/$p"; done ) &
wait
cat "$OUT"/*/summary.txt | grep -v "rc=0" | cut -c1-200
echo "clean runs: $(cat "$OUT"/*/summary.txt | grep -c 'rc=0') of $(cat "$OUT"/*/summary.txt | wc -l)"
