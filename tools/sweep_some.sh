#!/bin/bash
# tools/sweep_some.sh <tier> "<props>" <seed...>
TIER="$1"; PROPS="$2"; shift; shift
cd "$(dirname "$0")/.."
for seed in "$@"; do
  for p in $PROPS; do
    t0=$(date +%s)
    out="$(VERIF_SEED=$seed ./check $p $TIER 2>&1)"; rc=$?
    t1=$(date +%s)
    echo "seed=$seed $p rc=$rc $((t1-t0))s $(echo "$out" | grep -E '^RESULT' | sed 's/^RESULT //')"
    echo "$out" | grep -E "^(VIOLATION|BROKEN|INCONCLUSIVE|BUILD-FAILED|  what)" | head -6 | cut -c1-400
  done
done
