#!/usr/bin/env python3
import json, sys, glob, jsonschema
m=json.load(open('/verif/MANIFEST.json'))
jsonschema.validate(m, json.load(open('/root/.vp/MANIFEST.schema.json')))
es=json.load(open('/root/.vp/EVIDENCE.schema.json'))
for f in sorted(glob.glob('/verif/evidence/*.json')):
    e=json.load(open(f)); jsonschema.validate(e, es)
    print(f.split('/')[-1], e['tier'], 'evals', e['coverage']['evaluations'], 'distinct', e['coverage']['distinct_nontrivial'], 'viol', e.get('violations'), 'wall', round(e['wall_s'],1))
print('manifest ok; claimed', [c['property_id'] for c in m['checks']])
