#!/bin/bash
# tools/seeded_verify.sh <dir-with-patch.diff+demo_test.go> <Cxx> <seed-id> <pkgdir-for-demo> <go-test-run-regex> [tier] [needs-text]
# Confirms a seeded change (compiles, suite passes, demo fails with it and passes without it), runs the check against it,
# and stores it under /verif/seeded/<seed-id>/ with meta.json.
set -u
SRC="$1"; PROP="$2"; ID="$3"; PKG="$4"; RUN="$5"; TIER="${6:-quick}"; NEEDS="${7:-}"
export GOFLAGS=-mod=mod GOPROXY=off GOSUMDB=off GOTOOLCHAIN=local
S="$(mktemp -d /tmp/sv-XXXXXX)"
rsync -a --exclude .git /repo/ "$S/"
res() { echo "$1=$2"; }
if ! (cd "$S" && patch -p1 -s < "$SRC/patch.diff"); then echo "RESULT $ID patch=FAILED"; rm -rf "$S"; exit 3; fi
if ! (cd "$S" && go build ./... 2> "$S.build.log"); then echo "RESULT $ID compile=FAILED"; tail -5 "$S.build.log"; rm -rf "$S" "$S.build.log"; exit 3; fi
rm -f "$S.build.log"
SUITE=pass
(cd "$S" && flock /tmp/seeded-verify-suite.lock go test -vet=off -count=1 ./... > "$S.suite.log" 2>&1) || SUITE=fail
# package test listens on the fixed port 5140: when another suite runs on the machine at the same moment it fails at once with
# "address already in use" - that package alone is then re-run (up to 4 times) before the suite is called failing
if [ "$SUITE" = fail ] && [ "$(grep -c '^FAIL' "$S.suite.log")" = 2 ] && grep -q "^FAIL.*slog-agent/test" "$S.suite.log"; then
  for i in 1 2 3 4; do
    sleep $((i*3))
    if (cd "$S" && flock /tmp/seeded-verify-suite.lock go test -vet=off -count=1 ./test/... > "$S.suite2.log" 2>&1); then SUITE=pass; break; fi
  done
  [ "$SUITE" = pass ] && : > "$S.suite.log"
  rm -f "$S.suite2.log"
fi
[ "$SUITE" = fail ] && grep -E "^(FAIL|---)" "$S.suite.log" | head -5
rm -f "$S.suite.log"
# demo with the change
cp "$SRC/demo_test.go" "$S/$PKG/zz_seed_demo_test.go"
DEMO_WITH=pass
(cd "$S" && timeout 300 go test -vet=off -count=1 -run "$RUN" "./$PKG" > "$S.demo.log" 2>&1) || DEMO_WITH=fail
rm -f "$S.demo.log" "$S/$PKG/zz_seed_demo_test.go"
# demo without the change
C="$(mktemp -d /tmp/sv-clean-XXXXXX)"
rsync -a --exclude .git /repo/ "$C/"
cp "$SRC/demo_test.go" "$C/$PKG/zz_seed_demo_test.go"
DEMO_WITHOUT=pass
(cd "$C" && timeout 300 go test -vet=off -count=1 -run "$RUN" "./$PKG" > "$C.demo.log" 2>&1) || DEMO_WITHOUT=fail
[ "$DEMO_WITHOUT" = fail ] && tail -8 "$C.demo.log"
rm -rf "$C" "$C.demo.log"
# the check
mkdir -p "$S.out"
OUT="$(cd /verif && VERIF_REPO="$S" VERIF_OUT="$S.out" ./check "$PROP" "$TIER" 2>&1 | grep -E "^(VIOLATION|RESULT|BROKEN|BUILD-FAILED|KNOWN|  what)")"
DET=missed
echo "$OUT" | grep -q "^VIOLATION" && DET=caught
FP="$(echo "$OUT" | grep "^VIOLATION" | sed -E 's#.*/replays/[^/]+/##; s#\.json$##' | head -5 | tr '\n' ' ')"
WHAT="$(echo "$OUT" | grep "^  what" | head -2 | cut -c1-300)"
rm -rf "$S" "$S.out"
echo "RESULT $ID property=$PROP suite=$SUITE demo_with=$DEMO_WITH demo_without=$DEMO_WITHOUT check_$TIER=$DET fingerprints: $FP"
echo "$WHAT"
if [ "$SUITE" = pass ] && [ "$DEMO_WITH" = fail ] && [ "$DEMO_WITHOUT" = pass ]; then
  D="/verif/seeded/$ID"; mkdir -p "$D"
  cp "$SRC/patch.diff" "$D/patch.diff"; cp "$SRC/demo_test.go" "$D/demo_test.go"
  [ -f "$SRC/README.md" ] && cp "$SRC/README.md" "$D/README.md"
  python3 - "$D" "$PROP" "$ID" "$PKG" "$RUN" "$TIER" "$DET" "$FP" "$NEEDS" <<'EOF'
import json,sys,subprocess,os
d,prop,sid,pkg,run,tier,det,fp,needs=sys.argv[1:10]
meta={"id":sid,"property":prop,"breaks":prop,"origin":"independent sub-agent given only the property text and a scratch worktree",
 "needs_to_manifest":needs,
 "confirmed":{"compiles":True,"existing_suite_passes_with_change":True,"demo_fails_with_change":True,"demo_passes_without_change":True,
   "demo":"copy demo_test.go into %s and run: go test -vet=off -count=1 -run '%s' ./%s"%(pkg,run,pkg)},
 "check_result":{"tier":tier,"verdict":det,"fingerprints":fp.split()},
 "ran":["tools/seeded_verify.sh (scratch copies of /repo under /tmp, removed afterwards)","go test -vet=off -count=1 ./... with the change","VERIF_REPO=<scratch> ./check %s %s"%(prop,tier)],
 "repo_head":subprocess.run(["git","-C","/repo","log","--format=%h","-1"],capture_output=True,text=True).stdout.strip()}
json.dump(meta,open(os.path.join(d,"meta.json"),"w"),indent=1)
EOF
  echo "stored in $D"
else
  echo "NOT KEPT: requirements not met"
fi
