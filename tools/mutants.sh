#!/bin/bash
# tools/mutants.sh [own|reverts|seeded|all] [name-regex]  — apply every stored breaking change to a scratch copy of /repo (never to
# /repo itself), run the check of its property at the quick tier and record caught / missed in mutants/RESULTS-<group>.tsv.
#   own     : mutants/*.diff (INDEX.tsv), written while building the checks
#   reverts : every "fixed:" commit of KNOWN_FINDINGS.txt reverted (git diff <commit> <commit>^)
#   seeded  : seeded/*/patch.diff, written by independent sub-agents from the property text alone
set -u
cd "$(dirname "$0")/.."
GROUP="${1:-all}"; RE="${2:-.}"
SFX=""; [ -n "${VERIF_SEED:-}" ] && [ "${VERIF_SEED}" != 1 ] && SFX="-seed$VERIF_SEED"   # results at another seed go to their own files
TMP="$(mktemp -d /tmp/mut-XXXXXX)"
trap 'rm -rf "$TMP"' EXIT
run_one() { # name prop patch expect outfile
  local name="$1" prop="$2" patch="$3" expect="$4" out="$5"
  local res rc
  res="$(SEEDTEST_DIR=${MUTANTS_DIR:-/tmp/sb-mutants} SEEDTEST_LINES=40 tools/seedtest.sh "$patch" "$prop" quick 2>&1)"; rc=$?
  local verdict fps
  if echo "$res" | grep -q "PATCH FAILED"; then verdict="does-not-apply"
  elif echo "$res" | grep -q "BROKEN PATCH"; then verdict="does-not-compile"
  elif echo "$res" | grep -q "^VIOLATION property=$prop "; then verdict="caught"
  elif echo "$res" | grep -qE "^(BROKEN|BUILD-FAILED)"; then verdict="check-broken"
  else verdict="missed"; fi
  fps="$(echo "$res" | grep "^VIOLATION" | sed -E 's/.*replays\/[^/]*\/(.*)\.json/\1/' | head -3 | tr '\n' ' ')"
  if [ -f "$out" ]; then grep -v "^$name	" "$out" > "$out.tmp"; mv "$out.tmp" "$out"; fi
  printf "%s\t%s\t%s\t%s\t%s\n" "$name" "$prop" "$expect" "$verdict" "$fps" | tee -a "$out"
}
head_of_repo="$(git -C /repo rev-parse --short HEAD)"
if [ "$GROUP" = own ] || [ "$GROUP" = all ]; then
  out=mutants/RESULTS-own$SFX.tsv; [ "$RE" = . ] && echo "# repo $head_of_repo, quick tier; name property expected verdict first-fingerprints" > $out
  grep -v '^#' mutants/INDEX.tsv | while IFS=$'\t' read -r name prop expect what; do
    echo "$name" | grep -qE "$RE" || continue
    run_one "$name" "$prop" "$PWD/mutants/$name.diff" "$expect" "$out"
  done
fi
if [ "$GROUP" = reverts ] || [ "$GROUP" = all ]; then
  out=mutants/RESULTS-reverts$SFX.tsv; [ "$RE" = . ] && echo "# repo $head_of_repo, quick tier; each fix commit reverted on a scratch copy; name property expected verdict first-fingerprints" > $out
  grep '^fixed:' KNOWN_FINDINGS.txt | sed -E 's/^fixed: property=(C[0-9]+) ([0-9a-f]+) .*/\1 \2/' | while read -r prop commit; do
    echo "revert-$commit-$prop" | grep -qE "$RE" || continue
    if [ -f "mutants/reverts/revert-$commit.diff" ]; then
      cp "mutants/reverts/revert-$commit.diff" "$TMP/rev-$commit.diff"   # later commits touched the same lines: reverted by hand
    else
      git -C /repo diff "$commit" "$commit^" > "$TMP/rev-$commit.diff"
    fi
    run_one "revert-$commit-$prop" "$prop" "$TMP/rev-$commit.diff" caught "$out"
  done
fi
if [ "$GROUP" = seeded ] || [ "$GROUP" = all ]; then
  out=mutants/RESULTS-seeded$SFX.tsv; [ "$RE" = . ] && echo "# repo $head_of_repo, quick tier; name property expected verdict first-fingerprints" > $out
  for d in seeded/*/; do
    name="$(basename "$d")"; echo "$name" | grep -qE "$RE" || continue
    prop="$(python3 -c "import json;m=json.load(open('$d/meta.json'));print(m.get('check',m['property']))")"   # 'check' overrides: a change seeded for one property may need another property's check
    run_one "$name" "$prop" "$PWD/$d/patch.diff" caught "$out"
  done
fi
