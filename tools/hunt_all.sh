#!/bin/bash
# tools/hunt_all.sh <outdir> <first-seed> <count>  — hunts of the end-to-end checks side by side (they share ports, disk and CPU:
# the situation in which cross-talk and stall-induced alarms showed), to be run from a snapshot (vp run) so that edits in
# /verif do not disturb them
set -u
OUT="$1"; FIRST="$2"; N="$3"
cd "$(dirname "$0")/.."
mkdir -p "$OUT"
tools/hunt.sh C01 thorough "$FIRST" "$N" "$OUT/C01" &
tools/hunt.sh C05 thorough "$FIRST" "$N" "$OUT/C05" &
tools/hunt.sh C18 thorough "$FIRST" "$((N/2))" "$OUT/C18" &
tools/hunt.sh C19 thorough "$FIRST" "$N" "$OUT/C19" &
tools/hunt.sh C17 quick "$FIRST" "$((N*2))" "$OUT/C17" &
wait
cat "$OUT"/*/summary.txt | grep -v "rc=0" | cut -c1-200
echo "clean runs: $(cat "$OUT"/*/summary.txt | grep -c 'rc=0') of $(cat "$OUT"/*/summary.txt | wc -l)"
