#!/bin/bash
# tools/seedtest.sh <patch-file|-e 'python-expr'> <Cxx> [tier]   — apply a breaking patch to a scratch copy of /repo and run a check on it
set -u
PATCH="$1"; PROP="$2"; TIER="${3:-quick}"
# SEEDTEST_DIR: a fixed scratch path (serial use only) so that Go's build cache is hit for every package the patch leaves alone
if [ -n "${SEEDTEST_DIR:-}" ]; then S="$SEEDTEST_DIR"; mkdir -p "$S"; else S="$(mktemp -d /tmp/sb-XXXXXX)"; fi
rsync -a --delete --exclude .git /repo/ "$S/"
if ! (cd "$S" && patch -p1 -s < "$PATCH"); then echo "PATCH FAILED"; rm -rf "$S"; exit 3; fi
export GOFLAGS=-mod=mod GOPROXY=off GOSUMDB=off GOTOOLCHAIN=local
if ! (cd "$S" && go build ./... ); then echo "BROKEN PATCH: does not compile"; rm -rf "$S"; exit 3; fi
mkdir -p "$S.out"
cd "$(dirname "$(readlink -f "$0")")/.." && VERIF_REPO="$S" VERIF_OUT="$S.out" ./check "$PROP" "$TIER" | grep -E "^(VIOLATION|RESULT|BROKEN|BUILD-FAILED|KNOWN|  what)" | head -${SEEDTEST_LINES:-8}
rc=${PIPESTATUS[0]}
rm -rf "$S" "$S.out"
exit $rc
