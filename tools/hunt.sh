#!/bin/bash
# tools/hunt.sh <Cxx> <tier> <first-seed> <count> <outdir>  — repeat one check over many seeds without touching /verif/evidence;
# one summary line per seed in <outdir>/summary.txt, evidence and replays of every run that did not exit 0 kept in <outdir>/<seed>/
set -u
PROP="$1"; TIER="$2"; FIRST="$3"; COUNT="$4"; OUT="$5"
mkdir -p "$OUT"
cd "$(dirname "$0")/.."
for ((s=FIRST; s<FIRST+COUNT; s++)); do
  d="$OUT/$PROP-$s"
  mkdir -p "$d"
  VERIF_SEED=$s VERIF_OUT="$d" ./check "$PROP" "$TIER" > "$d/log.txt" 2>&1
  rc=$?
  echo "$(date +%H:%M:%S) $PROP $TIER seed=$s rc=$rc $(grep -E '^RESULT' "$d/log.txt" | sed 's/^RESULT //')" >> "$OUT/summary.txt"
  if [ $rc -eq 0 ] && ! grep -q '^VIOLATION' "$d/log.txt"; then rm -rf "$d"; fi
done
